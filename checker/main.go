// gsa — goloop static analyser: decides structural clauses of the given
// properties from /repo's current source (type-checked packages + SSA), never
// by running goloop code.
package main

import (
	"encoding/json"
	"flag"
	"fmt"
	"os"
	"path/filepath"
	"runtime/debug"
	"sort"
	"strings"
	"time"
)

const (
	exitOK        = 0
	exitViolation = 1
	exitUndecided = 2
)

var (
	flagProp     = flag.String("property", "", "property id (C01..C37) or 'all'")
	flagTier     = flag.String("tier", "quick", "quick|thorough")
	flagRepo     = flag.String("repo", "/repo", "repository root")
	flagEvidence = flag.String("evidence", "", "evidence file (default /verif/evidence/<id>.json)")
	flagVerif    = flag.String("verif", "", "verif root (default: parent of the binary's directory)")
	flagOverlay  = flag.String("overlay", "", "file=replacement[,file=replacement] source overlay (self-test mutants)")
	flagManifest = flag.Bool("manifest", false, "print MANIFEST.json for the registered properties")
	flagReplay   = flag.String("replay", "", "replay file: re-decide the property it names")
	flagNoMut    = flag.Bool("nomutants", false, "thorough tier without the mutant self-test")
	flagList     = flag.Bool("list", false, "list obligations")
	flagDump     = flag.String("dumpfn", "", "debug: pkg:recv:name — print the SSA of a function with the guards of each block")
	flagNBuiltin = flag.Bool("nbuiltin", false, "internal: print the number of built-in mutants of the property")
	flagMutant   = flag.Int("mutant", -1, "internal: run with mutant #n of the property applied and report whether the rules fire")
)

func verifRoot() string {
	if *flagVerif != "" {
		return *flagVerif
	}
	if v := os.Getenv("VERIF_ROOT"); v != "" {
		return v
	}
	exe, err := os.Executable()
	if err == nil {
		d := filepath.Dir(filepath.Dir(exe))
		if _, err := os.Stat(filepath.Join(d, "properties.jsonl")); err == nil {
			return d
		}
	}
	return "/verif"
}

func main() {
	flag.Parse()
	if v := os.Getenv("VERIF_TIER"); v != "" && !isFlagSet("tier") {
		*flagTier = v
	}
	if *flagManifest {
		printManifest()
		return
	}
	if *flagDump != "" {
		dumpFn(*flagDump)
		return
	}
	if *flagReplay != "" {
		bs, err := os.ReadFile(*flagReplay)
		if err != nil {
			fmt.Println("cannot read replay file:", err)
			os.Exit(exitUndecided)
		}
		var r struct {
			Property string `json:"property"`
		}
		if json.Unmarshal(bs, &r) != nil || r.Property == "" {
			fmt.Println("bad replay file")
			os.Exit(exitUndecided)
		}
		*flagProp = r.Property
	}
	if *flagProp == "" {
		flag.Usage()
		os.Exit(exitUndecided)
	}
	if *flagProp == "all" {
		rc := 0
		for _, p := range allProps() {
			if r := runProperty(p); r > rc {
				rc = r
			}
		}
		os.Exit(rc)
	}
	p := findProp(*flagProp)
	if p == nil {
		fmt.Printf("UNDECIDED property=%s reason=not-registered\n", *flagProp)
		os.Exit(exitUndecided)
	}
	if *flagNBuiltin {
		fmt.Println(len(p.Mutants))
		os.Exit(0)
	}
	loadExtraMutants(p)
	if *flagMutant >= 0 {
		os.Exit(runMutantChild(p, *flagMutant))
	}
	os.Exit(runProperty(p))
}

func isFlagSet(name string) bool {
	set := false
	flag.Visit(func(f *flag.Flag) {
		if f.Name == name {
			set = true
		}
	})
	return set
}

// runProperty loads the property's packages, runs its rules, prints the
// report, writes the evidence file and returns the exit code.
func runProperty(p *Prop) (rc int) {
	start := time.Now()
	c := &Ctx{Prop: p, Tier: *flagTier}
	defer func() {
		if r := recover(); r != nil {
			fmt.Printf("UNDECIDED property=%s reason=analysis-panic: %v\n%s\n", p.ID, r, debug.Stack())
			c.writeEvidence(time.Since(start), nil)
			rc = exitUndecided
		}
	}()
	overlay, err := parseOverlay(*flagOverlay)
	if err != nil {
		fmt.Println("bad overlay:", err)
		return exitUndecided
	}
	pkgs := p.Pkgs
	if c.Tier == "thorough" && len(p.ThoroughPkgs) > 0 {
		pkgs = p.ThoroughPkgs
	}
	L, err := load(*flagRepo, pkgs, overlay)
	if err != nil {
		fmt.Printf("UNDECIDED property=%s reason=load: %v\n", p.ID, err)
		c.loadErr = err.Error()
		c.writeEvidence(time.Since(start), nil)
		return exitUndecided
	}
	c.L = L
	p.Run(c)
	if p.MinObligations > 0 && len(c.obs) < p.MinObligations {
		c.undecided("instance-floor", p.ID, 0, fmt.Sprintf("only %d obligations generated, floor confirmed by hand is %d", len(c.obs), p.MinObligations))
	}

	// known findings
	kf := loadKnownFindings(verifRoot())
	var viol, und, known []*Obligation
	for _, o := range c.obs {
		switch o.Status {
		case stViolated:
			if f := kf.match(p.ID, o); f != nil {
				o.Known = true
				known = append(known, o)
				fmt.Printf("KNOWN-FINDING: property=%s %s [%s %s] %s\n", p.ID, f.What, o.Rule, o.Construct, o.Pos)
			} else {
				viol = append(viol, o)
			}
		case stUndecided:
			und = append(und, o)
		}
	}
	if *flagList {
		for _, o := range c.obs {
			fmt.Printf("  %-10s %-28s %-60s %s  %s\n", o.Status, o.Rule, o.Construct, o.Pos, o.Detail)
		}
	}
	var mut *mutantReport
	if c.Tier == "thorough" && !*flagNoMut && *flagOverlay == "" && len(viol) == 0 && len(und) == 0 {
		mut = runMutants(p)
		for _, m := range mut.Results {
			if m.Outcome == "missed" || m.Outcome == "false-alarm-on-equivalent" {
				o := &Obligation{Rule: "selftest", Construct: m.Name, Status: stUndecided,
					Detail: "self-test " + m.Outcome + ": " + m.Desc}
				c.obs = append(c.obs, o)
				und = append(und, o)
			}
		}
	}
	wall := time.Since(start)
	c.writeEvidence(wall, mut)

	for _, o := range viol {
		fmt.Printf("%s: [%s] %s: %s\n", o.Pos, o.Rule, o.Construct, o.Detail)
	}
	for _, o := range und {
		fmt.Printf("%s: UNDECIDED [%s] %s: %s\n", o.Pos, o.Rule, o.Construct, o.Detail)
	}
	nd := 0
	for _, o := range c.obs {
		if o.Status == stDischarged {
			nd++
		}
	}
	fmt.Printf("property=%s tier=%s packages=%d functions=%d obligations=%d discharged=%d violated=%d known=%d undecided=%d wall=%.1fs\n",
		p.ID, c.Tier, len(L.Roots), L.NumFuncs, len(c.obs), nd, len(viol), len(known), len(und), wall.Seconds())
	if mut != nil {
		fmt.Printf("selftest property=%s mutants=%d killed=%d skipped=%d missed=%d\n", p.ID, len(mut.Results), mut.Killed, mut.Skipped, mut.Missed)
	}
	if len(viol) > 0 {
		rp := c.writeReplay(viol)
		fmt.Printf("VIOLATION property=%s replay=%s\n", p.ID, rp)
		return exitViolation
	}
	if len(und) > 0 {
		fmt.Printf("UNDECIDED property=%s count=%d\n", p.ID, len(und))
		return exitUndecided
	}
	return exitOK
}

func (c *Ctx) writeReplay(viol []*Obligation) string {
	dir := filepath.Join(verifRoot(), "replay")
	os.MkdirAll(dir, 0o755)
	path := filepath.Join(dir, c.Prop.ID+".json")
	bs, _ := json.MarshalIndent(map[string]interface{}{
		"property":   c.Prop.ID,
		"tier":       c.Tier,
		"violations": viol,
		"how":        "gsa -replay <this file> re-decides the property on /repo's current tree",
	}, "", " ")
	os.WriteFile(path, bs, 0o644)
	return path
}

// ---------------------------------------------------------------- evidence

func (c *Ctx) writeEvidence(wall time.Duration, mut *mutantReport) {
	if *flagOverlay != "" || *flagMutant >= 0 {
		return // mutant runs never write evidence
	}
	path := *flagEvidence
	if path == "" {
		path = filepath.Join(verifRoot(), "evidence", c.Prop.ID+".json")
	}
	os.MkdirAll(filepath.Dir(path), 0o755)
	seed := 0
	fmt.Sscanf(os.Getenv("VERIF_SEED"), "%d", &seed)
	nd, nv, nu, nk := 0, 0, 0, 0
	keys := map[string]bool{}
	nontriv := map[string]bool{}
	rules := map[string]int{}
	var samples []interface{}
	for _, o := range c.obs {
		k := o.Rule + "|" + o.Construct
		keys[k] = true
		rules[o.Rule]++
		switch o.Status {
		case stDischarged:
			nd++
			if o.Nontrivial {
				nontriv[k] = true
			}
		case stViolated:
			if o.Known {
				nk++
			} else {
				nv++
			}
		case stUndecided:
			nu++
		}
	}
	// samples: up to 12, spread over rules
	seen := map[string]int{}
	for _, o := range c.obs {
		if seen[o.Rule] >= 2 || len(samples) >= 14 {
			continue
		}
		seen[o.Rule]++
		samples = append(samples, map[string]string{"rule": o.Rule, "construct": o.Construct, "pos": o.Pos, "status": o.Status, "detail": o.Detail})
	}
	if len(samples) == 0 {
		samples = append(samples, "no obligations generated")
	}
	var ruleList []string
	for r, n := range rules {
		ruleList = append(ruleList, fmt.Sprintf("%s×%d", r, n))
	}
	sort.Strings(ruleList)
	cov := map[string]interface{}{
		"explanation":         c.Prop.Explanation,
		"rule":                "one obligation per rule+construct (function, call site, field, table entry) extracted from /repo's source on this run; non-trivial = decided by a path/dominance/dataflow/table-comparison argument rather than mere existence",
		"obligations":         len(c.obs),
		"discharged":          nd,
		"evaluations":         len(c.obs),
		"distinct_nontrivial": len(nontriv),
		"distinct_constructs": len(keys),
		"known_findings":      nk,
		"undecided":           nu,
		"rules_applied":       ruleList,
		"samples":             samples,
		"checker_cmd":         fmt.Sprintf("./bin/gsa -property %s -tier %s", c.Prop.ID, c.Tier),
		"exhaustive":          false,
	}
	if c.L != nil {
		cov["packages_loaded"] = c.L.NumPkgs
		cov["packages_analysed"] = c.L.rootPaths()
		cov["functions_analysed"] = c.L.NumFuncs
		cov["call_sites_scanned"] = c.callSites
	}
	if c.loadErr != "" {
		cov["load_error"] = c.loadErr
	}
	if mut != nil {
		cov["mutants_total"] = len(mut.Results)
		cov["mutants_killed"] = mut.Killed
		cov["mutants_skipped"] = mut.Skipped
		cov["mutants_missed"] = mut.Missed
		var ms []string
		for _, m := range mut.Results {
			ms = append(ms, m.Name+": "+m.Outcome)
		}
		cov["mutants"] = ms
	}
	ev := map[string]interface{}{
		"property_id": c.Prop.ID,
		"tier":        c.Tier,
		"seed":        seed,
		"level":       "other",
		"coverage":    cov,
		"assumptions": append([]string{
			"go/packages + go/types + go/ssa (x/tools v0.29.0) model the build of /repo with default tags (codec.BC = RLP)",
			"no reflection/unsafe/linkname access to the unexported fields and functions the who-may-write rules enumerate",
			"only the structural clauses named in the explanation are decided; the behavioural property as a whole is not",
		}, c.Prop.Assumptions...),
		"wall_s":     wall.Seconds(),
		"violations": nv,
	}
	bs, _ := json.MarshalIndent(ev, "", " ")
	os.WriteFile(path, bs, 0o644)
}

// ---------------------------------------------------------------- manifest

func printManifest() {
	type level struct {
		Category  string `json:"category"`
		Text      string `json:"text"`
		DesignRef string `json:"design_ref"`
	}
	type check struct {
		PropertyID string `json:"property_id"`
		Quick      string `json:"quick_cmd"`
		Thorough   string `json:"thorough_cmd"`
		Evidence   string `json:"evidence_file"`
		Replay     string `json:"replay_cmd_template"`
		Engine     string `json:"engine"`
		Level      level  `json:"level_claimed"`
		Note       string `json:"level_note"`
		Technique  string `json:"technique"`
	}
	type na struct {
		PropertyID string `json:"property_id"`
		Reason     string `json:"reason"`
	}
	var checks []check
	claimed := map[string]bool{}
	var served []string
	for _, p := range allProps() {
		claimed[p.ID] = true
		served = append(served, p.ID)
		checks = append(checks, check{
			PropertyID: p.ID,
			Quick:      "./bin/gsa -property " + p.ID + " -tier quick",
			Thorough:   "./bin/gsa -property " + p.ID + " -tier thorough",
			Evidence:   "/verif/evidence/" + p.ID + ".json",
			Replay:     "./bin/gsa -replay {path}",
			Engine:     "gsa",
			Level:      level{"other", levelTextOf(p), "DESIGN.md §6 " + p.ID},
			Note:       p.LevelNote + " The rules are intra-procedural: a refactoring that moves the anchored construct into a new helper function is, in most cases, reported as a changed anchor (violation or UNDECIDED) although behaviour is unchanged, and the rule must then be re-anchored (measured in DESIGN.md sections 3 and 8.2).",
			Technique:  p.Technique,
		})
	}
	var nas []na
	for _, id := range allPropIDs() {
		if claimed[id] {
			continue
		}
		r := notApplicable[id]
		if r == "" {
			r = "no static rule for this property has been built and validated yet; not claimed rather than claimed with a weak check (see DESIGN.md)"
		}
		nas = append(nas, na{id, r})
	}
	m := map[string]interface{}{
		"version":   1,
		"setup_cmd": "./tools/setup.sh",
		"hooks": map[string]interface{}{
			"guard":            "verif",
			"enable":           "none needed: the checker reads /repo's source and never builds or runs it; no hook or instrumentation commit exists",
			"baseline_off_cmd": "./tools/baseline.sh",
			"source_commits":   []string{},
			"add_only":         true,
		},
		"engines": []map[string]interface{}{{
			"name": "gsa", "path": "/verif/checker", "serves_properties": served,
			"kind_free_text": "repository-specific static analyser over go/packages + go/types + go/ssa (x/tools v0.29.0): guard dominance with a linear comparison algebra, must-pass-through/order, who-may-write, table agreement, provenance, pairing; mutant self-test through source overlays",
		}},
		"checks":         checks,
		"not_applicable": nas,
		"notes":          "All claims are level 'other': each check decides named structural necessary conditions of its property on every path / call site of the current source and states what it does not decide. Exit 2 (UNDECIDED) means the rule could not classify a construct and is treated as a broken check, never as a pass. known_findings.json lists genuine defects recorded rather than repaired.",
	}
	bs, _ := json.MarshalIndent(m, "", " ")
	fmt.Println(string(bs))
}

var notApplicable = map[string]string{
	"C24": "pure value-level round trip/minimality of integer and hex encodings; straight-line arithmetic with no pairing, ordering, ownership or table structure a static rule could decide without freezing source fragments (DESIGN.md §7)",
	"C35": "inequality over sums of big.Int products and floor divisions across a voting history; no sound static bound without symbolic arithmetic, which is a different technique family (DESIGN.md §7)",
}

func allPropIDs() []string {
	var ids []string
	bs, err := os.ReadFile(filepath.Join(verifRoot(), "properties.jsonl"))
	if err != nil {
		for i := 1; i <= 37; i++ {
			ids = append(ids, fmt.Sprintf("C%02d", i))
		}
		return ids
	}
	for _, ln := range strings.Split(string(bs), "\n") {
		var r struct {
			ID string `json:"id"`
		}
		if json.Unmarshal([]byte(ln), &r) == nil && r.ID != "" {
			ids = append(ids, r.ID)
		}
	}
	return ids
}

func dumpFn(spec string) {
	parts := strings.Split(spec, ":")
	if len(parts) != 3 {
		fmt.Println("want pkg:recv:name")
		return
	}
	L, err := load(*flagRepo, []string{parts[0]}, nil)
	if err != nil {
		fmt.Println(err)
		return
	}
	c := &Ctx{L: L, Prop: &Prop{ID: "dump"}}
	f := c.fn(parts[0], parts[1], parts[2])
	if f == nil {
		fmt.Println("not found")
		return
	}
	for _, g := range withAnon(f) {
		g.WriteTo(os.Stdout)
		for _, b := range g.Blocks {
			fmt.Printf("  block %d guards: %s\n", b.Index, guardsString(guardsAtBlock(b)))
		}
	}
}
