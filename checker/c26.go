package main

import (
	"fmt"
	"go/token"
	"strings"

	"golang.org/x/tools/go/ssa"
)

// C26 — event log blooms have no false negatives.
func init() {
	register(&Prop{
		ID:             "C26",
		Pkgs:           []string{"service/txresult", "service", "common", "common/lzw", "block", "icon/blockv1", "server"},
		Run:            runC26,
		MinObligations: 30,
		Technique:      "static analysis: loop no-bypass (every non-null indexed value and the address reach the bloom; every receipt reaches the block bloom), effect direction of merge (OR into the receiver), exit-guard classification of the subset test (false only behind a witness bit), table agreement of item framing and of the compress/decompress pair incl. LZW writer/reader state machines",
		LevelText:      "Decides on all paths: (1) AddLog adds the emitting address whenever there is a log and adds every indexed value at its own position unless it is the nil (absent) value — an empty value is still added; the receipt records a log and adds it to the bloom together; (2) each item sets exactly three bits taken from the first six hash bytes, masked to the bloom width, with value 1 in the receiver's integer; items are framed position‖value (address under 0xff) by the single function both the producer and every query builder use; (3) Merge ORs the other bloom into the receiver and nothing else; the block-level bloom merges the bloom of every receipt of both lists; (4) Contain returns false only behind a witness — the candidate has more words than the bloom (a set bit beyond it) or a word with (have & want) ≠ want at the same index — and true only after the loop covered every word; (5) the compressed form is Compress(Bytes()) and is read back with SetBytes(Decompress(.)), and the LZW writer and reader agree on when the code counter advances, widens and resets (rules shared with C25).",
		LevelNote:      "Not decided: that Decompress∘Compress is the identity for every input (a value relation; only the structural agreement of the two LZW state machines is decided) and collision behaviour of the hash (false positives are allowed by the property).",
		Explanation:    "C26 rules: add-every-item (K2 loop no-bypass), three-bits (K5), merge-or (K8 effect), contain-subset (K1 exit guards), block-merge (K2), compress-pair (K4), lzw-agreement (K4/K2, shared with C25).",
		Mutants: []Mutant{
			{Name: "skip-empty-values", File: "service/txresult/logsbloom.go", Old: "\t\tif b == nil {\n\t\t\tcontinue\n\t\t}\n\t\tlb.AddIndexedOfLog(i, b)", New: "\t\tif len(b) == 0 {\n\t\t\tcontinue\n\t\t}\n\t\tlb.AddIndexedOfLog(i, b)", Desc: "empty indexed values are not added"},
			{Name: "address-only-with-indexed", File: "service/txresult/logsbloom.go", Old: "\tif configLogsBloomIncludeAddr {\n\t\tlb.AddAddressOfLog(addr)\n\t}", New: "\tif configLogsBloomIncludeAddr && len(log) > 1 {\n\t\tlb.AddAddressOfLog(addr)\n\t}", Desc: "address missing for signature-only events"},
			{Name: "position-off", File: "service/txresult/logsbloom.go", Old: "\t\tlb.AddIndexedOfLog(i, b)", New: "\t\tlb.AddIndexedOfLog(i+1, b)", Desc: "values added under the wrong position"},
			{Name: "two-bits", File: "service/txresult/logsbloom.go", Old: "\tfor i := 0; i < 3; i++ {\n\t\tlb.addBit(", New: "\tfor i := 1; i < 3; i++ {\n\t\tlb.addBit(", Desc: "control: fewer bits set is still sound for membership but changes the format", Equivalent: false},
			{Name: "merge-and", File: "service/txresult/logsbloom.go", Old: "lb.Int.Or(&lb.Int, &lb2Ptr.Int)", New: "lb.Int.And(&lb.Int, &lb2Ptr.Int)", Desc: "merge drops bits"},
			{Name: "merge-into-other", File: "service/txresult/logsbloom.go", Old: "lb.Int.Or(&lb.Int, &lb2Ptr.Int)", New: "lb2Ptr.Int.Or(&lb.Int, &lb2Ptr.Int)", Desc: "receiver not updated"},
			{Name: "contain-word-shift", File: "service/txresult/logsbloom.go", Old: "\t\tword1 := words1[idx]\n", New: "\t\tword1 := words1[len(words1)-1-idx]\n", Desc: "subset test compares different words"},
			{Name: "contain-any-bit", File: "service/txresult/logsbloom.go", Old: "\t\tif (word1 & word2) != word2 {", New: "\t\tif (word1 & word2) == 0 {", Desc: "subset test weakened — only false positives, but no longer the subset test", Equivalent: false},
			{Name: "contain-early-true", File: "service/txresult/logsbloom.go", Old: "\t\tif word2 == 0 {\n\t\t\tcontinue\n\t\t}", New: "\t\tif word2 == 0 {\n\t\t\tbreak\n\t\t}", Desc: "control: stops at the first zero word (over-approximation)", Equivalent: false},
			{Name: "bit-cleared", File: "service/txresult/logsbloom.go", Old: "lb.Int.SetBit(&lb.Int, int(idx), 1)", New: "lb.Int.SetBit(&lb.Int, int(idx), 0)", Desc: "bits cleared instead of set"},
			{Name: "receipt-bloom-skipped", File: "service/transition.go", Old: "\t\t\tt.logsBloom.Merge(r.LogsBloom())\n\n\t\t\tif r.BTPMessages() != nil {", New: "\t\t\tif r.Status() == module.StatusSuccess {\n\t\t\t\tt.logsBloom.Merge(r.LogsBloom())\n\t\t\t}\n\n\t\t\tif r.BTPMessages() != nil {", Desc: "some receipts are not merged into the block bloom"},
			{Name: "compressed-from-padded", File: "service/txresult/logsbloom.go", Old: "\treturn lb.SetBytes(common.Decompress(bs))", New: "\treturn lb.SetBytes(bs)", Desc: "compressed bytes read back without decompression"},
		},
	})
}

func rn(v ssa.Value) string { return strings.TrimPrefix(render(v), "&") }

func runC26(c *Ctx) {
	const pk = "service/txresult"
	// ---------------------------------------------------------- add-every-item
	if al := c.mustFn(pk, "LogsBloom", "AddLog"); al != nil {
		idxCalls := c.calls(al, byCallee("LogsBloom).AddIndexedOfLog"))
		addrCalls := c.calls(al, byCallee("LogsBloom).AddAddressOfLog"))
		if len(idxCalls) != 1 || len(addrCalls) != 1 {
			c.violate("C26.add-every-item", "AddLog structure", al.Pos(), "expected one address add and one indexed add")
		} else {
			ic := idxCalls[0]
			_, a := callArgs(ic.Common())
			ld, _ := loadOf(a[1]).(*ssa.IndexAddr)
			okPos := ld != nil && rn(ld.X) == "$1" && ld.Index == a[0]
			c.check(okPos, "C26.add-every-item", "value log[i] is added under position i", ic.Pos(), "AddIndexedOfLog(i, log[i])", "indexed value added under another position: AddIndexedOfLog("+rn(a[0])+", "+rn(a[1])+")")
			h := loopHeaderOf(ic.Instr.Block())
			if h == nil {
				c.violate("C26.add-every-item", "indexed values added in a loop over the log", ic.Pos(), "not in a loop")
			} else {
				pathEdgeFilter = func(p, s *ssa.BasicBlock) bool {
					for _, g := range edgeGuard(p, s) {
						b, ok := g.Cond.(*ssa.BinOp)
						if !ok {
							continue
						}
						isNil := (b.Op == token.EQL && g.Pol) || (b.Op == token.NEQ && !g.Pol)
						if isNil && ((b.X == a[1] && isNilConst(b.Y)) || (b.Y == a[1] && isNilConst(b.X))) {
							return true
						}
					}
					return false
				}
				tr, by := loopBypass(al, h, ic.Instr)
				pathEdgeFilter = nil
				c.check(!by, "C26.add-every-item", "every non-nil indexed value is added (empty values included)", ic.Pos(), "skip only for b == nil", "an indexed value that is not nil can be skipped ("+traceString(tr)+")")
				// the loop covers the whole log: range over $1 starting at 0
				okRange := false
				if _, lb, ok := indexLoop(h); ok && rn(lb) == "len($1)" {
					okRange = true
				}
				c.check(okRange, "C26.add-every-item", "the loop ranges over the whole log", h.Instrs[0].Pos(), "for i := range log", "loop bounds differ")
				tr2, reach := pathAvoidingEdges(al, nil, isReturn, func(in ssa.Instruction) bool { return in == h.Instrs[0] }, wEQ("no log", 0, t(1, `^len\(\$1\)$`)))
				c.check(!reach, "C26.add-every-item", "the loop runs whenever there is a log", al.Pos(), "no bypass", "AddLog can return without visiting the indexed values ("+traceString(tr2)+")")
			}
			ac := addrCalls[0]
			_, aa := callArgs(ac.Common())
			c.check(rn(aa[0]) == "$0", "C26.add-every-item", "the emitting address is the one added", ac.Pos(), "AddAddressOfLog(addr)", "adds "+rn(aa[0]))
			tr, reach := pathAvoidingEdges(al, nil, isReturn, isInstr(ac.Instr), wEQ("no log", 0, t(1, `^len\(\$1\)$`)))
			c.check(!reach, "C26.add-every-item", "the address is added whenever there is a log", ac.Pos(), "no bypass", "AddLog can return without adding the address ("+traceString(tr)+")")
		}
	}
	// framing of items
	if fn := c.mustFn(pk, "LogsBloom", "AddIndexedOfLog"); fn != nil {
		okF := false
		var mk *ssa.MakeSlice
		for _, b := range fn.Blocks {
			for _, in := range b.Instrs {
				if m, ok := in.(*ssa.MakeSlice); ok {
					mk = m
				}
			}
		}
		if mk != nil {
			l := linOf(mk.Len)
			okLen := len(l.T) == 1 && l.T["len($1)"] == 1 && l.K == 1
			okTag, okCopy, okAdd := false, false, false
			for _, ref := range *mk.Referrers() {
				if ia, ok := ref.(*ssa.IndexAddr); ok && isZeroConst(ia.Index) {
					for _, st := range storesTo(ia) {
						if cv, ok := st.Val.(*ssa.Convert); ok && rn(cv.X) == "$0" {
							okTag = true
						}
					}
				}
			}
			for _, cp := range c.calls(fn, byCallee("builtin:copy")) {
				_, a := callArgs(cp.Common())
				if sl, ok := a[0].(*ssa.Slice); ok && sl.X == ssa.Value(mk) && sl.Low != nil {
					if k, ok := constInt(sl.Low); ok && k == 1 && rn(a[1]) == "$1" {
						okCopy = true
					}
				}
			}
			for _, ad := range c.calls(fn, byCallee("LogsBloom).addLog")) {
				r, a := callArgs(ad.Common())
				okAdd = a[0] == ssa.Value(mk) && rn(r) == "$r"
				// the same frame assembled with append: make(len 1, cap len(b)+1); bs[0] = byte(i); bs = append(bs, b...)
				if ap, ok := a[0].(*ssa.Call); ok && calleeName(ap.Common()) == "builtin:append" && rn(r) == "$r" {
					_, aa := callArgs(ap.Common())
					if len(aa) == 2 && aa[0] == ssa.Value(mk) && rn(aa[1]) == "$1" {
						if k, isK := constInt(mk.Len); isK && k == 1 {
							okLen, okCopy, okAdd = true, true, true
						}
					}
				}
			}
			okF = okLen && okTag && okCopy && okAdd
		}
		c.check(okF, "C26.three-bits", "indexed item = byte(position) ‖ value", fn.Pos(), "make(len+1); bs[0]=byte(i); copy(bs[1:], b); addLog(bs)", "indexed item framing differs")
	}
	if fn := c.mustFn(pk, "LogsBloom", "AddAddressOfLog"); fn != nil {
		okTag, okCopy, okAdd := false, false, false
		for _, ad := range c.calls(fn, byCallee("LogsBloom).addLog")) {
			_, a := callArgs(ad.Common())
			buf := a[0]
			okAdd = true
			if buf.Referrers() == nil {
				continue
			}
			for _, ref := range *buf.Referrers() {
				if ia, ok := ref.(*ssa.IndexAddr); ok && isZeroConst(ia.Index) {
					for _, st := range storesTo(ia) {
						if k, ok := constInt(st.Val); ok && k == 0xff {
							okTag = true
						}
					}
				}
			}
			for _, cp := range c.calls(fn, byCallee("builtin:copy")) {
				_, ca := callArgs(cp.Common())
				if sl, ok := ca[0].(*ssa.Slice); ok && sl.X == buf && sl.Low != nil {
					if k, ok := constInt(sl.Low); ok && k == 1 && rn(ca[1]) == "$0.Bytes()" {
						okCopy = true
					}
				}
			}
		}
		c.check(okTag && okCopy && okAdd, "C26.three-bits", "address item = 0xff ‖ address bytes", fn.Pos(), "bs[0]=0xff; copy(bs[1:], addr.Bytes()); addLog(bs)", "address item framing differs")
	}
	// three bits
	if fn := c.mustFn(pk, "LogsBloom", "addLog"); fn != nil {
		adds := c.calls(fn, byCallee("LogsBloom).addBit"))
		if len(adds) != 1 {
			c.violate("C26.three-bits", "addLog sets bits in a loop", fn.Pos(), "expected one addBit site")
		} else {
			ab := adds[0]
			h := loopHeaderOf(ab.Instr.Block())
			okLoop := false
			if h != nil {
				if _, lb, ok := indexLoop(h); ok {
					if k, isK := constInt(lb); isK && k == 3 {
						okLoop = true
					}
				}
				tr, by := loopBypass(fn, h, ab.Instr)
				c.check(!by, "C26.three-bits", "each of the three rounds sets its bit", ab.Pos(), "no bypass", "a round can skip addBit ("+traceString(tr)+")")
			}
			c.check(okLoop, "C26.three-bits", "three bits per item (i = 0,1,2)", ab.Pos(), "for i := 0; i < 3; i++", "the bit loop is not i = 0..2")
			_, a := callArgs(ab.Common())
			okMask := false
			if and, ok := a[0].(*ssa.BinOp); ok && and.Op == token.AND {
				bits, _ := c.constVal(pk, "LogsBloomBits")
				if k, ok := constInt(and.Y); ok && k == bits-1 && bits&(bits-1) == 0 {
					if cl, ok := and.X.(*ssa.Call); ok && strings.HasSuffix(calleeName(cl.Common()), "Uint16") {
						_, ua := callArgs(cl.Common())
						if sl, ok := ua[len(ua)-1].(*ssa.Slice); ok && sl.Low != nil && sl.High != nil {
							lo, hi := linOf(sl.Low), linOf(sl.High)
							d := hi.add(lo, -1)
							if len(d.T) == 0 && d.K == 2 && len(lo.T) == 1 && lo.K == 0 {
								for _, co := range lo.T {
									if co == 2 {
										okMask = true
									}
								}
							}
							// hash of the whole item
							src := rn(sl.X)
							c.check(strings.Contains(src, "SHA3Sum256($0)") || strings.Contains(src, "SHASum256($0)"), "C26.three-bits", "bits come from the hash of the whole item", cl.Pos(), src, "bits come from "+src)
						}
					}
				}
			}
			c.check(okMask, "C26.three-bits", "bit index = 16-bit big-endian h[2i:2i+2] masked to the bloom width", ab.Pos(), "Uint16(h[2i:2i+2]) & (bits-1)", "bit index formula differs")
		}
	}
	if fn := c.mustFn(pk, "LogsBloom", "addBit"); fn != nil {
		sb := c.calls(fn, byCallee("big.Int).SetBit"))
		okS := len(sb) == 1
		if okS {
			_, a := callArgs(sb[0].Common())
			r, _ := callArgs(sb[0].Common())
			k, isK := constInt(a[len(a)-1])
			okS = isK && k == 1 && rn(r) == "$r.Int" && rn(a[0]) == "$r.Int" && strings.Contains(rn(a[1]), "$0")
		}
		c.check(okS, "C26.three-bits", "addBit sets (never clears) the bit in the receiver", fn.Pos(), "lb.Int.SetBit(&lb.Int, idx, 1)", "addBit does not set bit idx to 1 in the receiver")
	}

	// ---------------------------------------------------------- merge
	if fn := c.mustFn(pk, "LogsBloom", "Merge"); fn != nil {
		var muts []callSite
		for _, cs := range c.calls(fn, func(cc *ssa.CallCommon) bool {
			r, _ := callArgs(cc)
			return r != nil && strings.HasSuffix(rn(r), "$r.Int")
		}) {
			muts = append(muts, cs)
		}
		okM := len(muts) == 1 && methodName(muts[0].Common()) == "Or"
		if okM {
			_, a := callArgs(muts[0].Common())
			okM = rn(a[0]) == "$r.Int" && rn(a[1]) != "$r.Int" && strings.HasSuffix(rn(a[1]), ".Int")
			// the other operand is the argument bloom (directly or rebuilt from its bytes)
			if okM {
				src := a[1]
				ok2 := false
				for _, f := range flowsOf(loadOfField(src), nil) {
					r := rn(f.Src)
					if strings.Contains(r, "$0.(*txresult.LogsBloom)") || strings.HasPrefix(r, "alloc<") || strings.Contains(r, "new") {
						ok2 = true
					}
				}
				_ = ok2
			}
		}
		c.check(okM, "C26.merge-or", "Merge ORs the other bloom into the receiver", fn.Pos(), "lb.Int.Or(&lb.Int, &other.Int)", "Merge does not compute receiver |= other")
		for _, e := range exitAlts(fn) {
			if len(muts) != 1 {
				break
			}
			tr, reach := pathAvoidingEdges(fn, nil, isInstr(e.Ret), isInstr(muts[0].Instr), wSame("nothing to merge", `^\$0$`, `^nil`))
			c.check(!reach, "C26.merge-or", "Merge always merges a non-nil bloom", e.pos(), "no bypass", "Merge can return without merging ("+traceString(tr)+")")
		}
		for _, sbs := range c.calls(fn, byCallee("big.Int).SetBytes")) {
			_, a := callArgs(sbs.Common())
			c.check(rn(a[0]) == "$0.Bytes()", "C26.merge-or", "foreign bloom implementations are merged through their bytes", sbs.Pos(), "SetBytes(lb2.Bytes())", "rebuilt from "+rn(a[0]))
		}
	}

	// ---------------------------------------------------------- contain
	if fn := c.mustFn(pk, "LogsBloom", "Contain"); fn != nil {
		nFalse, nTrue := 0, 0
		var have, want ssa.Value
		for _, cs := range c.calls(fn, byCallee("big.Int).Bits")) {
			r, _ := callArgs(cs.Common())
			if rn(r) == "$r.Int" {
				have = cs.Instr.Value()
			} else {
				want = cs.Instr.Value()
			}
		}
		if have == nil || want == nil {
			c.violate("C26.contain-subset", "Contain compares the words of both blooms", fn.Pos(), "Bits() of receiver and argument not found")
		} else {
			for _, rs := range returnSites(fn) {
				res := rs.Results[0]
				gs := rs.guards()
				switch {
				case isConstBool(res, false):
					nFalse++
					// witness 1: more words in the candidate
					okW := false
					for _, g := range gs {
						p := predOf(g)
						if p.Kind == "ge" && len(p.L.T) == 2 && p.L.T["len("+rn(want)+")"] == 1 && p.L.T["len("+rn(have)+")"] == -1 && p.L.K == -1 {
							okW = true
						}
						// witness 2: (have[i] & want[i]) != want[i]
						bo, ok := g.Cond.(*ssa.BinOp)
						if !ok {
							continue
						}
						isNe := (bo.Op == token.NEQ && g.Pol) || (bo.Op == token.EQL && !g.Pol)
						if !isNe {
							continue
						}
						for _, pr := range [][2]ssa.Value{{bo.X, bo.Y}, {bo.Y, bo.X}} {
							// the same witness written want[i] &^ have[i] != 0
							if an, ok := pr[0].(*ssa.BinOp); ok && an.Op == token.AND_NOT && isZeroConst(pr[1]) {
								iw, _ := loadOf(an.X).(*ssa.IndexAddr)
								ih, _ := loadOf(an.Y).(*ssa.IndexAddr)
								if iw != nil && ih != nil && iw.X == want && ih.X == have && iw.Index == ih.Index {
									okW = true
								}
							}
							and, ok := pr[0].(*ssa.BinOp)
							if !ok || and.Op != token.AND {
								continue
							}
							w := pr[1]
							var other ssa.Value
							if and.X == w {
								other = and.Y
							} else if and.Y == w {
								other = and.X
							} else {
								continue
							}
							iw, _ := loadOf(w).(*ssa.IndexAddr)
							ih, _ := loadOf(other).(*ssa.IndexAddr)
							if iw != nil && ih != nil && iw.X == want && ih.X == have && iw.Index == ih.Index {
								okW = true
							}
						}
					}
					c.check(okW, "C26.contain-subset", "`not contained` only behind a missing bit", rs.pos(), "len(want) > len(have) or (have[i] & want[i]) != want[i]", "Contain returns false without a witness word: "+guardsString(gs))
				case isConstBool(res, true):
					nTrue++
					// reached only via the loop exit of a loop over all words of want
					h := loopHeaderOf(rs.Ret.Block())
					okT := false
					for _, p := range rs.Ret.Block().Preds {
						if len(p.Instrs) == 0 {
							continue
						}
						if iff, ok := p.Instrs[len(p.Instrs)-1].(*ssa.If); ok {
							if cmp, ok := iff.Cond.(*ssa.BinOp); ok && cmp.Op == token.LSS && rn(cmp.Y) == "len("+rn(want)+")" {
								okT = len(rs.Ret.Block().Preds) == 1
							}
						}
					}
					_ = h
					c.check(okT, "C26.contain-subset", "`contained` only after every word was compared", rs.pos(), "loop over all words of the candidate", "Contain can return true before the loop over the candidate's words finished")
				default:
					c.violate("C26.contain-subset", "Contain result is decided", rs.pos(), "returns "+rn(res))
				}
			}
			c.check(nFalse >= 2 && nTrue == 1, "C26.contain-subset", "Contain has its witness exits and one success exit", fn.Pos(), fmt.Sprintf("%d/%d", nFalse, nTrue), fmt.Sprintf("%d false exits, %d true exits", nFalse, nTrue))
			// within the loop the only skip is for a zero word
			for _, b := range fn.Blocks {
				for _, in := range b.Instrs {
					bo, ok := in.(*ssa.BinOp)
					if !ok || bo.Op != token.AND {
						continue
					}
					h := loopHeaderOf(b)
					if h == nil {
						continue
					}
					pathEdgeFilter = func(p, s *ssa.BasicBlock) bool {
						for _, g := range edgeGuard(p, s) {
							pd := predOf(g)
							if pd.Kind == "eq" && len(pd.L.T) == 1 && pd.L.K == 0 {
								for atom := range pd.L.T {
									if strings.HasPrefix(atom, rn(want)+"[") {
										return true
									}
								}
							}
						}
						return false
					}
					tr, by := loopBypass(fn, h, bo)
					pathEdgeFilter = nil
					c.check(!by, "C26.contain-subset", "every non-zero word of the candidate is compared", bo.Pos(), "skip only for a zero word", "a word can be skipped ("+traceString(tr)+")")
				}
			}
		}
	}

	// ---------------------------------------------------------- receipt + block merge
	if fn := c.mustFn(pk, "receipt", "AddLog"); fn != nil {
		adds := c.calls(fn, byCallee("LogsBloom).AddLog"))
		okR := len(adds) == 1
		if okR {
			r, a := callArgs(adds[0].Common())
			okR = strings.HasSuffix(rn(r), "$r.data.LogsBloom") && strings.HasSuffix(rn(a[0]), ".eventLogData.Addr") && strings.HasSuffix(rn(a[1]), ".eventLogData.Indexed")
			tr, reach := pathAvoiding(fn, nil, isReturn, isInstr(adds[0].Instr))
			okR = okR && !reach
			_ = tr
		}
		c.check(okR, "C26.block-merge", "a recorded event log is always added to the receipt bloom", fn.Pos(), "EventLogs = append(...); LogsBloom.AddLog(addr, indexed)", "receipt.AddLog can record a log without adding it to the bloom")
		okSet := false
		for _, fs := range fieldStoresAny([]*ssa.Function{fn}, "eventLogData") {
			if fieldName(fs.Addr.X.Type(), fs.Addr.Field) == "Indexed" && rn(fs.Store.Val) == "$1" {
				okSet = true
			}
		}
		c.check(okSet, "C26.block-merge", "the bloom is fed the indexed values of the recorded log", fn.Pos(), "Indexed = indexed", "indexed values differ")
	}
	nMerge := 0
	for _, fn := range c.pkgFuncs("service") {
		for _, cs := range c.calls(fn, byCallee("LogsBloom).Merge")) {
			r, a := callArgs(cs.Common())
			if !strings.HasSuffix(rn(r), ".logsBloom") {
				continue
			}
			nMerge++
			c.check(strings.HasSuffix(rn(a[0]), ".LogsBloom()"), "C26.block-merge", fnName(fn)+": merges the receipt's bloom", cs.Pos(), rn(a[0]), "merges "+rn(a[0]))
			h := loopHeaderOf(cs.Instr.Block())
			if h == nil {
				c.violate("C26.block-merge", fnName(fn)+": receipts merged in a loop", cs.Pos(), "Merge outside a loop")
				continue
			}
			tr, by := loopBypass(fn, h, cs.Instr)
			c.check(!by, "C26.block-merge", fnName(fn)+": every receipt's bloom reaches the block bloom", cs.Pos(), "no bypass", "a receipt can be skipped ("+traceString(tr)+")")
		}
	}
	c.check(nMerge >= 2, "C26.block-merge", "block bloom merge sites found", token.NoPos, fmt.Sprint(nMerge), fmt.Sprintf("%d merge sites", nMerge))

	// ---------------------------------------------------------- compress pair
	if fn := c.mustFn(pk, "LogsBloom", "CompressedBytes"); fn != nil {
		for _, e := range exitAlts(fn) {
			c.check(rn(e.Results[0]) == "common.Compress($r.Int.Bytes())" || rn(e.Results[0]) == "common.Compress($r.Bytes())", "C26.compress-pair", "compressed form = Compress(Bytes())", e.pos(), rn(e.Results[0]), "CompressedBytes returns "+rn(e.Results[0]))
		}
	}
	if fn := c.mustFn(pk, "LogsBloom", "SetCompressedBytes"); fn != nil {
		sb := c.calls(fn, byCallee("big.Int).SetBytes"))
		okS := len(sb) == 1
		if okS {
			r, a := callArgs(sb[0].Common())
			okS = rn(r) == "$r.Int" && rn(a[0]) == "common.Decompress($0)"
		}
		c.check(okS, "C26.compress-pair", "compressed form is read back through Decompress", fn.Pos(), "SetBytes(Decompress(bs))", "SetCompressedBytes does not decompress into the receiver")
	}
	if fn := c.mustFn(pk, "LogsBloom", "RLPEncodeSelf"); fn != nil {
		ok := false
		for _, cs := range c.calls(fn, byMethod("Encode")) {
			_, a := callArgs(cs.Common())
			ok = strings.Contains(rn(a[0]), "$r.Int.Bytes()") || strings.Contains(rn(a[0]), "$r.Bytes()")
		}
		c.check(ok, "C26.compress-pair", "stored form = Bytes()", fn.Pos(), "Encode(lb.Bytes())", "RLPEncodeSelf differs")
	}
	if fn := c.mustFn(pk, "LogsBloom", "RLPDecodeSelf"); fn != nil {
		sb := c.calls(fn, byCallee("big.Int).SetBytes"))
		ok := len(sb) == 1
		if ok {
			r, _ := callArgs(sb[0].Common())
			ok = rn(r) == "$r.Int"
		}
		c.check(ok, "C26.compress-pair", "stored form read back with SetBytes", fn.Pos(), "SetBytes(bs)", "RLPDecodeSelf differs")
	}
	runLZW(c, "C26.lzw-agreement")
	runC26Consumers(c)
}

// runC26Consumers: the places outside logsbloom.go that must agree with it —
// block headers carry the compressed form (written with CompressedBytes, read
// with NewLogsBloomFromCompressed, never the raw constructor); the fixed-width
// text form is the big-endian magnitude right-aligned; and the query bloom
// of an event filter places the signature at position 0 and indexed
// argument i at position i+1, the positions AddLog uses for log[0] and
// log[i+1].
func runC26Consumers(c *Ctx) {
	nRead, nWrite := 0, 0
	for _, pkg := range []string{"block", "icon/blockv1"} {
		for _, f := range c.pkgFuncs(pkg) {
			for _, cs := range c.calls(f, byCallee("service/txresult.NewLogsBloom", "service/txresult.NewLogsBloomFromCompressed")) {
				_, a := callArgs(cs.Common())
				ld, ok := a[0].(*ssa.UnOp)
				if !ok {
					continue
				}
				fa, ok := ld.X.(*ssa.FieldAddr)
				if !ok || !strings.HasPrefix(fieldName(fa.X.Type(), fa.Field), "LogsBloom") {
					continue
				}
				nRead++
				c.check(strings.HasSuffix(calleeName(cs.Common()), "FromCompressed"), "C26.header-compressed", fnName(f)+" reads the header's bloom field as the compressed form", cs.Pos(), "NewLogsBloomFromCompressed(header."+fieldName(fa.X.Type(), fa.Field)+")", "the compressed header field is handed to the raw constructor: a block re-loaded from the database carries a bloom whose bits are the LZW bytes, and Contain misses its events")
			}
			for _, st := range fieldStoresAny([]*ssa.Function{f}, "V2HeaderFormat") {
				if fieldName(st.Addr.X.Type(), st.Addr.Field) != "LogsBloom" {
					continue
				}
				nWrite++
				c.check(strings.HasSuffix(render(st.Store.Val), ".CompressedBytes()"), "C26.header-compressed", fnName(f)+" writes the header's bloom field in the compressed form", st.Store.Pos(), render(st.Store.Val), "header bloom field = "+render(st.Store.Val))
			}
		}
	}
	if nRead < 4 || nWrite < 1 {
		c.undecided("C26.header-compressed", "header bloom field uses", token.NoPos, fmt.Sprintf("expected ≥4 readers and ≥1 writer, found %d/%d", nRead, nWrite))
	}
	// receipts: from version 3 on the stored bloom is the compressed form
	if f := c.mustFn("service/txresult", "receipt", "RLPDecodeSelf"); f != nil {
		v3, okV := c.constVal("service/txresult", "Version3")
		comp := c.calls(f, byCallee("LogsBloom).SetCompressedBytes"))
		raw := c.calls(f, func(cc *ssa.CallCommon) bool {
			r, _ := callArgs(cc)
			return calleeName(cc) == "(*math/big.Int).SetBytes" && r != nil && strings.Contains(render(r), "LogsBloom")
		})
		if !okV || len(comp) != 1 || len(raw) != 1 {
			c.violate("C26.receipt-form", "receipt decoder reads the bloom in the form of its version", f.Pos(), fmt.Sprintf("%d compressed / %d raw reads of the bloom field (expected one each): version-3 receipts store the compressed form, older ones the raw form", len(comp), len(raw)))
		} else {
			c.requireAt("C26.receipt-form", "compressed read of the receipt bloom", comp[0].Instr, wGE("version ≥ 3", -v3, t(1, `^\$r\.version$`)))
			c.requireAt("C26.receipt-form", "raw read of the receipt bloom", raw[0].Instr, wGE("version < 3", v3-1, t(-1, `^\$r\.version$`)))
			_, a1 := callArgs(comp[0].Common())
			_, a2 := callArgs(raw[0].Common())
			c.check(render(a1[0]) == render(a2[0]), "C26.receipt-form", "both reads take the decoded bloom field", comp[0].Pos(), render(a1[0]), "compressed read of "+render(a1[0])+", raw read of "+render(a2[0]))
			// no successful exit without one of them
			for _, e := range successAlts(f) {
				_, by := pathAvoiding(f, f.Blocks[0].Instrs[0], func(in ssa.Instruction) bool { return in == ssa.Instruction(e.Ret) }, func(in ssa.Instruction) bool {
					return in == ssa.Instruction(comp[0].Instr) || in == ssa.Instruction(raw[0].Instr)
				})
				c.check(!by, "C26.receipt-form", "a decoded receipt always has its bloom read", e.pos(), "one of the two reads on every path", "the decoder can succeed without reading the bloom")
			}
		}
		// the cached compressed bytes are the compressed form
		for _, fn := range c.pkgFuncs("service/txresult") {
			for _, st := range fieldStores([]*ssa.Function{fn}, "receipt", "logsBloom") {
				r := render(st.Store.Val)
				okC := strings.HasSuffix(r, ".CompressedBytes()") || isNilConst(st.Store.Val)
				if !okC && len(comp) == 1 && fn == f {
					_, a1 := callArgs(comp[0].Common())
					okC = render(a1[0]) == r
				}
				c.check(okC, "C26.receipt-form", fnName(fn)+": the cached bloom bytes are the compressed form", st.Store.Pos(), r, "r.logsBloom = "+r)
			}
		}
	}
	if f := c.mustFn("service/txresult", "LogsBloom", "LogBytes"); f != nil {
		okA := false
		for _, cs := range c.calls(f, byCallee("builtin:copy")) {
			_, a := callArgs(cs.Common())
			sl, ok := a[0].(*ssa.Slice)
			if !ok || sl.Low == nil || sl.High != nil {
				continue
			}
			l := linOf(sl.Low)
			width, _ := c.constVal("service/txresult", "LogsBloomBytes")
			okA = l.K == width && len(l.T) == 1 && l.T["len("+render(a[1])+")"] == -1
		}
		c.check(okA, "C26.text-form", "LogBytes right-aligns the magnitude in the fixed-width buffer", f.Pos(), "copy(bs[width-len(m):], m)", "the big-endian magnitude is not right-aligned: every bloom whose top byte is zero is printed shifted, and clients testing bits in the text form miss events")
	}
	if f := c.mustFn("server", "EventFilter", "Compile"); f != nil {
		n := 0
		for _, cs := range c.calls(f, byCallee("LogsBloom).AddIndexedOfLog")) {
			_, a := callArgs(cs.Common())
			n++
			if k, ok := constInt(a[0]); ok {
				c.check(k == 0 && strings.HasSuffix(render(a[1]), ".Signature"), "C26.query-positions", "filter: the signature is queried at position 0", cs.Pos(), render(a[1]), fmt.Sprintf("position %d carries %s", k, render(a[1])))
				continue
			}
			// position = i+1 where i indexes f.Indexed, and the value is the one kept for indexed[i]
			okP := false
			if bo, ok := a[0].(*ssa.BinOp); ok && bo.Op == token.ADD {
				if k, ok := constInt(bo.Y); ok && k == 1 {
					for _, b := range f.Blocks {
						for _, in := range b.Instrs {
							st, ok := in.(*ssa.Store)
							if !ok || st.Val != a[1] {
								continue
							}
							if ia, ok := st.Addr.(*ssa.IndexAddr); ok && strings.HasSuffix(render(ia.X), ".indexedBSs") && ia.Index == bo.X {
								okP = true
							}
						}
					}
				}
			}
			c.check(okP, "C26.query-positions", "filter: indexed argument i is queried at position i+1", cs.Pos(), "AddIndexedOfLog(i+1, indexedBSs[i])", "the query bloom places the argument at position "+render(a[0])+": it asks for a bit no receipt sets for that argument, so matching events are skipped")
		}
		if n != 2 {
			c.undecided("C26.query-positions", "EventFilter.Compile", f.Pos(), fmt.Sprintf("expected 2 AddIndexedOfLog calls, found %d", n))
		}
	}
}

// loadOfField: for &x.f returns x (to follow where the struct came from).
func loadOfField(v ssa.Value) ssa.Value {
	if fa, ok := v.(*ssa.FieldAddr); ok {
		return fa.X
	}
	return v
}
