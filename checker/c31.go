package main

import (
	"fmt"
	"go/token"
	"go/types"
	"strings"

	"golang.org/x/tools/go/ssa"
)

// C31 — the encrypted peer channel is a faithful byte stream.
func init() {
	register(&Prop{
		ID:             "C31",
		Pkgs:           []string{"network"},
		Run:            runC31,
		MinObligations: 25,
		Technique:      "static analysis: io.Reader-contract provenance of every returned count (sweep over all Read methods of package network), aliasing/ownership of the decrypt buffer, pairing of Seal/Open with the nonce increment on all paths, edge-guarded provenance of the per-direction keys, loop-carried offset of the key derivation, frame layout agreement",
		LevelText:      "Decides on all paths: every Read([]byte) in package network returns 0, the result of copy into the caller's slice, or the count of a delegated read into that same slice; SecureAead.Read drains retained plaintext first, decrypts into a buffer it owns (never into the caller's slice), keeps the uncopied remainder, bounds the frame length before allocating/slicing, and advances the nonce exactly on successful Open; Write seals ≤ frame-size chunks of the input in order, advances the nonce after every Seal and reports the bytes consumed; the length header is 2 bytes big-endian inside a 4-byte header on both sides; the two directions use the two different HKDF secrets, swapped by isLower, and the HKDF output offset advances per secret so the secrets and the session `extra` are disjoint ranges.",
		LevelNote:      "AEAD, HKDF and ECDH primitives are trusted; equality of the two ends' isLower complement follows from comparing the same two public keys and is checked only structurally (who stores isLower, under which comparison).",
		Explanation:    "C31 rules: read-contract (K5 sweep over network.*.Read), own-buffer (ownership/aliasing of Open's dst and of the retained remainder), bounded-frame (K11), nonce-pair (K8 path search around Seal/Open), write-chunks (K5), frame-layout (K4 writer vs reader), key-split (K5 with phi edge guards in NewSecureConn + K3 on isLower), hkdf-offsets (K10/K5 loop-carried offset, buffer size, extra range), secret-count (K3 on secureKeyNum).",
		Mutants: []Mutant{
			{Name: "F6-return-frame-length", File: "network/secure.go", Old: "\tn = copy(b, plain)\n\tsa.remain = plain[n:]\n\treturn", New: "\tcopy(b, plain)\n\tn = len(plain)\n\treturn", Desc: "regression of F6: frame length returned, remainder dropped"},
			{Name: "remainder-dropped", File: "network/secure.go", Old: "\tn = copy(b, plain)\n\tsa.remain = plain[n:]\n\treturn", New: "\tn = copy(b, plain)\n\treturn", Desc: "uncopied plaintext not retained"},
			{Name: "open-into-caller-buffer", File: "network/secure.go", Old: "sa.aead.Open(frame[:0], sa.nonce, sealed[:], nil)", New: "sa.aead.Open(b[:0], sa.nonce, sealed[:], nil)", Desc: "decrypts into the caller's slice beyond its length"},
			{Name: "frame-bound-dropped", File: "network/secure.go", Old: "\tif fn > secureConnFrameSize {\n\t\treturn 0, fmt.Errorf(\"invalid secure frame size %d\", fn)\n\t}\n", New: "", Desc: "length field not bounded"},
			{Name: "nonce-on-failed-open", File: "network/secure.go", Old: "\tplain, err := sa.aead.Open(frame[:0], sa.nonce, sealed[:], nil)\n\tif err != nil {\n\t\treturn 0, err\n\t}\n\tsa.increaseNonce()", New: "\tplain, err := sa.aead.Open(frame[:0], sa.nonce, sealed[:], nil)\n\tsa.increaseNonce()\n\tif err != nil {\n\t\treturn 0, err\n\t}", Desc: "nonce advanced on a rejected frame"},
			{Name: "no-nonce-after-seal", File: "network/secure.go", Old: "\t\t_ = sa.aead.Seal(sealed[secureConnHeaderSize:secureConnHeaderSize], sa.nonce, frame[:cn], nil)\n\t\tsa.increaseNonce()", New: "\t\t_ = sa.aead.Seal(sealed[secureConnHeaderSize:secureConnHeaderSize], sa.nonce, frame[:cn], nil)", Desc: "nonce reused for every frame"},
			{Name: "hkdf-offset-outside-loop", File: "network/secure.go", Old: "\t\tcopy(k.secret[i], b[n:n+secretLen])\n\t\tn += secretLen\n\t}", New: "\t\tcopy(k.secret[i], b[n:n+secretLen])\n\t}\n\tn += secretLen", Desc: "both directions derive the same key"},
			{Name: "same-secret-both-directions", File: "network/secure.go", Old: "\t\t\tinSecret = k.secret[1]\n\t\t\toutSecret = k.secret[0]", New: "\t\t\tinSecret = k.secret[0]\n\t\t\toutSecret = k.secret[1]", Desc: "isLower no longer swaps the directions: both ends send with the same key"},
			{Name: "drain-skipped", File: "network/secure.go", Old: "\tif len(sa.remain) > 0 {\n\t\tn = copy(b, sa.remain)\n\t\tsa.remain = sa.remain[n:]\n\t\treturn\n\t}\n", New: "", Desc: "retained plaintext overwritten by the next frame"},
			{Name: "write-count-total", File: "network/secure.go", Old: "\t\tn += cn\n\t}\n\treturn\n}", New: "\t\tn += cn\n\t}\n\tn = wn\n\treturn\n}", Desc: "behaviour-preserving: after the loop n == len(b)", Equivalent: true},
			{Name: "one-secret", File: "network/authenticator.go", Old: "secureKeyNum: 2,", New: "secureKeyNum: 1,", Desc: "a single secret keys both directions"},
		},
	})
}

func runC31(c *Ctx) {
	const pkg = "network"
	pf := c.pkgFuncs(pkg)

	// ---- read-contract sweep
	nRead := 0
	for _, f := range pf {
		if f.Name() != "Read" || f.Signature.Recv() == nil || f.Signature.Params().Len() != 1 || f.Signature.Results().Len() != 2 {
			continue
		}
		if types.TypeString(f.Signature.Params().At(0).Type(), nil) != "[]byte" || !isIntType(f.Signature.Results().At(0).Type()) {
			continue
		}
		nRead++
		b := ssa.Value(f.Params[1])
		for _, rs := range returnSites(f) {
			for _, fl := range flowsOf(rs.Results[0], nil) {
				v := fl.Src
				name := fnName(f) + " returned count"
				if k, ok := constInt(v); ok && k == 0 {
					c.okTrivial("C31.read-contract", name, rs.pos(), "0")
					continue
				}
				okCount := false
				why := render(v)
				if call, ok := v.(*ssa.Call); ok && calleeName(call.Common()) == "builtin:copy" && call.Call.Args[0] == b {
					okCount = true
					why = "copy(b, …)"
				}
				if dst, _, _, isH := helperCopy(v); isH && dst == b {
					okCount = true
					why = "copy(b, …) inside " + render(v)
				}
				if ex, ok := v.(*ssa.Extract); ok && ex.Index == 0 {
					if call, ok := ex.Tuple.(*ssa.Call); ok {
						_, a := callArgs(call.Common())
						for _, x := range a {
							if x == b {
								okCount = true
								why = "count of " + methodName(call.Common()) + "(…, b)"
							}
						}
					}
				}
				c.check(okCount, "C31.read-contract", name, rs.pos(), why, "returns "+why+", which is not bounded by the caller's buffer (neither copy(b, …) nor a read into b)")
			}
		}
	}
	if nRead < 2 {
		c.undecided("C31.read-contract", "Read methods", token.NoPos, fmt.Sprintf("expected ≥2 Read([]byte) methods in network, found %d", nRead))
	}

	rd := c.mustFn(pkg, "SecureAead", "Read")
	wr := c.mustFn(pkg, "SecureAead", "Write")
	if rd == nil || wr == nil {
		return
	}
	b := ssa.Value(rd.Params[1])
	fromB := func(v ssa.Value) bool { return derivesFrom(v, func(x ssa.Value) bool { return x == b }, 10) }

	// ---- own-buffer + remainder
	opens := c.calls(rd, byMethod("Open"))
	if len(opens) != 1 {
		c.violate("C31.own-buffer", "SecureAead.Read decrypts", rd.Pos(), fmt.Sprintf("expected one AEAD Open, found %d", len(opens)))
		return
	}
	open := opens[0]
	_, oa := callArgs(open.Common())
	c.check(!fromB(oa[0]), "C31.own-buffer", "Open destination is owned by the reader", open.Pos(), "dst = "+render(oa[0]), "Open appends into the caller's slice ("+render(oa[0])+"): plaintext is written beyond len(b) and the retained remainder aliases caller memory")
	c.check(render(oa[1]) == "$r.nonce", "C31.nonce-pair", "Open uses the direction's nonce", open.Pos(), "sa.nonce", "nonce is "+render(oa[1]))
	var plain ssa.Value
	for _, r := range *open.Instr.Value().Referrers() {
		if ex, ok := r.(*ssa.Extract); ok && ex.Index == 0 {
			plain = ex
		}
	}
	// the frame-path return: n = copy(b, plain), remain = plain[n:]
	stores := fieldStores([]*ssa.Function{rd}, "SecureAead", "remain")
	okRemain := false
	for _, st := range stores {
		sl, ok := st.Store.Val.(*ssa.Slice)
		if !ok || sl.High != nil {
			continue
		}
		cp, ok := sl.Low.(*ssa.Call)
		if !ok || calleeName(cp.Common()) != "builtin:copy" || cp.Call.Args[0] != b {
			continue
		}
		if plain != nil && sl.X == plain && cp.Call.Args[1] == plain {
			okRemain = true
			c.ok("C31.read-contract", "SecureAead.Read retains the uncopied plaintext", st.Store.Pos(), "remain = plain[copy(b, plain):]")
			// and the success exit behind it returns that copy count
			for _, e := range successAlts(rd) {
				if e.Results[0] == ssa.Value(cp) {
					c.check(dominatesInstr(st.Store, e.Ret), "C31.read-contract", "remainder stored before returning", e.pos(), "store dominates return", "returns before retaining the remainder")
				}
			}
		}
		if strings.HasPrefix(render(sl.X), "$r.remain") && cp.Call.Args[1] == sl.X {
			c.ok("C31.read-contract", "SecureAead.Read advances the retained plaintext", st.Store.Pos(), "remain = remain[copy(b, remain):]")
		}
		c.check(!fromB(sl.X), "C31.own-buffer", "retained plaintext is owned by the reader", st.Store.Pos(), render(sl.X), "retains a slice of caller memory")
	}
	// the same delivery moved into a function only Read calls: remain = src[copy(dst, src):] there,
	// called with (b, plain)
	for g, site := range c.localHelpers(rd, false) {
		for _, st := range fieldStores([]*ssa.Function{g}, "SecureAead", "remain") {
			sl, ok := st.Store.Val.(*ssa.Slice)
			if !ok || sl.High != nil {
				continue
			}
			cp, ok := sl.Low.(*ssa.Call)
			if !ok || calleeName(cp.Common()) != "builtin:copy" {
				continue
			}
			arg := func(v ssa.Value) ssa.Value {
				for i, p := range g.Params {
					if ssa.Value(p) == v && i < len(site.Common().Args) {
						return site.Common().Args[i]
					}
				}
				return nil
			}
			if arg(cp.Call.Args[0]) == b && plain != nil && arg(sl.X) == plain && cp.Call.Args[1] == sl.X {
				okRemain = true
				c.ok("C31.read-contract", "SecureAead.Read retains the uncopied plaintext", st.Store.Pos(), "remain = plain[copy(b, plain):] in "+g.Name())
				c.check(!fromB(arg(sl.X)), "C31.own-buffer", "retained plaintext is owned by the reader", st.Store.Pos(), render(arg(sl.X)), "retains a slice of caller memory")
				for _, rs := range returnSites(g) {
					if len(rs.Results) == 1 && rs.Results[0] == ssa.Value(cp) {
						c.check(dominatesInstr(st.Store, rs.Ret), "C31.read-contract", "remainder stored before returning", rs.pos(), "store dominates return", "returns before retaining the remainder")
					}
				}
			}
		}
	}
	c.check(okRemain, "C31.read-contract", "SecureAead.Read remainder", rd.Pos(), "kept", "plaintext that does not fit the caller's buffer is not retained for the next call")
	// drain first: any read from the connection happens only when nothing is retained
	for _, cs := range c.calls(rd, byCallee("io.ReadFull", "io.ReadAtLeast")) {
		c.requireAt("C31.read-contract", "connection read only when nothing is retained", cs.Instr, wGE("len(remain) ≤ 0", 0, t(-1, `^len\(\$r\.remain\)$`)))
	}
	// success exits: copy from remain (drain) or copy from plain behind Open()==nil
	for _, e := range successAlts(rd) {
		cp, ok := e.Results[0].(*ssa.Call)
		if !ok {
			continue
		}
		if _, src, _, isH := helperCopy(cp); isH {
			if src == plain {
				c.requireGuard("C31.nonce-pair", "plaintext delivered only after successful Open", e.pos(), e.Guards, wSame("Open error == nil", `\.Open\(.*#1$`, `^nil$`))
			}
			continue
		}
		if calleeName(cp.Common()) != "builtin:copy" {
			continue
		}
		if cp.Call.Args[1] == plain {
			c.requireGuard("C31.nonce-pair", "plaintext delivered only after successful Open", e.pos(), e.Guards, wSame("Open error == nil", `\.Open\(.*#1$`, `^nil$`))
		}
	}

	// ---- bounded-frame
	var lenField ssa.Value
	for _, cs := range c.calls(rd, byCallee("(encoding/binary.bigEndian).Uint16")) {
		lenField = cs.Instr.Value()
	}
	if lenField == nil {
		c.undecided("C31.frame-layout", "reader length field", rd.Pos(), "no big-endian uint16 length")
	} else {
		for _, bl := range rd.Blocks {
			for _, in := range bl.Instrs {
				ms, ok := in.(*ssa.MakeSlice)
				if !ok {
					continue
				}
				l := linOf(ms.Len)
				if l.T[render(lenField)] == 0 {
					continue
				}
				c.requireAt("C31.bounded-frame", "ciphertext buffer sized from a bounded length", ms, wGE("length ≤ frame size", 1024, t(-1, `Uint16\(`)))
				ov := false
				for a := range l.T {
					if strings.HasSuffix(a, ".Overhead()") {
						ov = true
					}
				}
				c.check(ov && l.T[render(lenField)] == 1 && l.K == 0, "C31.frame-layout", "ciphertext length = plaintext length + AEAD overhead", ms.Pos(), l.String(), "ciphertext buffer length is "+l.String())
			}
		}
	}

	// ---- nonce-pair (read side)
	incR := c.calls(rd, byCallee("(*network.SecureAead).increaseNonce"))
	if len(incR) != 1 {
		c.violate("C31.nonce-pair", "Read advances the nonce", rd.Pos(), fmt.Sprintf("expected one increaseNonce in Read, found %d", len(incR)))
	} else {
		c.requireAt("C31.nonce-pair", "nonce advanced only after successful Open", incR[0].Instr, wSame("Open error == nil", `\.Open\(.*#1$`, `^nil$`))
		for _, e := range successAlts(rd) {
			if cp, ok := e.Results[0].(*ssa.Call); ok && calleeName(cp.Common()) == "builtin:copy" && cp.Call.Args[1] == plain {
				_, skip := pathAvoiding(rd, open.Instr, func(in ssa.Instruction) bool { return in == ssa.Instruction(e.Ret) }, func(in ssa.Instruction) bool { return in == ssa.Instruction(incR[0].Instr) })
				c.check(!skip, "C31.nonce-pair", "every delivered frame advances the nonce", e.pos(), "increaseNonce on every path from Open to the delivering return", "a frame can be delivered without advancing the nonce")
			}
		}
	}

	// ---- write side
	seals := c.calls(wr, byMethod("Seal"))
	incW := c.calls(wr, byCallee("(*network.SecureAead).increaseNonce"))
	sends := c.calls(wr, byMethod("Write"))
	if len(seals) != 1 || len(sends) != 1 {
		c.violate("C31.write-chunks", "SecureAead.Write", wr.Pos(), fmt.Sprintf("expected one Seal and one conn.Write, found %d/%d", len(seals), len(sends)))
	} else {
		seal := seals[0]
		_, sa := callArgs(seal.Common())
		c.check(render(sa[1]) == "$r.nonce", "C31.nonce-pair", "Seal uses the direction's nonce", seal.Pos(), "sa.nonce", "nonce is "+render(sa[1]))
		// between a Seal and the next Seal or any exit there is an increaseNonce
		isInc := func(in ssa.Instruction) bool {
			for _, i := range incW {
				if in == ssa.Instruction(i.Instr) {
					return true
				}
			}
			return false
		}
		tr, bad := pathAvoiding(wr, seal.Instr, func(in ssa.Instruction) bool { return in == ssa.Instruction(seal.Instr) || isReturn(in) }, isInc)
		c.check(!bad, "C31.nonce-pair", "every Seal is followed by a nonce increment", seal.Pos(), "increaseNonce before the next Seal or return", "a nonce can be reused: "+traceString(tr))
		// chunk: cn = copy(frame[:frameSize], b[n:]) ; plaintext sealed = frame[:cn]; header = uint16(cn) at sealed[0:2]; dst = sealed[4:4]
		var cn *ssa.Call
		for _, cs := range c.calls(wr, byCallee("builtin:copy")) {
			cn = cs.Instr.(*ssa.Call)
		}
		if cn == nil {
			c.violate("C31.write-chunks", "Write chunking", wr.Pos(), "no copy of the input into a frame")
		} else {
			src, isSl := cn.Call.Args[1].(*ssa.Slice)
			okSrc := isSl && src.X == ssa.Value(wr.Params[1]) && src.High == nil && src.Low != nil
			c.check(okSrc, "C31.write-chunks", "chunk is the next unsent part of the input", cn.Pos(), "copy(frame, b[n:])", "chunk source is "+render(cn.Call.Args[1]))
			if okSrc {
				// n is a phi advanced by cn
				nphi, isPhi := src.Low.(*ssa.Phi)
				adv := false
				if isPhi {
					for _, e := range nphi.Edges {
						if bo, ok := e.(*ssa.BinOp); ok && bo.Op == token.ADD && bo.X == ssa.Value(nphi) && bo.Y == ssa.Value(cn) {
							adv = true
						}
					}
				}
				c.check(adv, "C31.write-chunks", "offset advances by the bytes sealed", cn.Pos(), "n += cn", "the input offset does not advance by the chunk length")
				for _, rs := range returnSites(wr) {
					ok := false
					for _, fl := range flowsOf(rs.Results[0], nil) {
						gs := append(append([]Guard{}, fl.Guards...), rs.guards()...)
						_, done := holds(gs, wGE("n ≥ len(b): everything was sent", 0, t(1, `^phi\(`), t(-1, `^len\(\$0\)$`)))
						if fl.Src == ssa.Value(nphi) || isZeroConst(fl.Src) {
							ok = true
						} else if bo, isBo := fl.Src.(*ssa.BinOp); isBo && bo.X == ssa.Value(nphi) {
							ok = true
						} else if render(fl.Src) == "len($0)" && done {
							ok = true // equal to n once the loop has consumed the whole input
						} else {
							ok = false
							break
						}
					}
					c.check(ok, "C31.write-chunks", "Write returns the bytes consumed", rs.pos(), "n", "returns "+render(rs.Results[0]))
				}
			}
			dst, dl, dh, okd := sliceBounds(cn.Call.Args[0])
			_ = dst
			c.check(okd && dl == 0 && dh == 1024, "C31.write-chunks", "chunk ≤ frame size", cn.Pos(), "frame[:1024]", "chunk buffer is "+render(cn.Call.Args[0]))
			pt, isPt := sa[2].(*ssa.Slice)
			c.check(isPt && pt.High == ssa.Value(cn) && pt.Low == nil, "C31.write-chunks", "sealed plaintext is exactly the chunk", seal.Pos(), "frame[:cn]", "sealed plaintext is "+render(sa[2]))
			_, sl, sh, oks := sliceBounds(sa[0])
			c.check(oks && sl == 4 && sh == 4, "C31.frame-layout", "ciphertext placed behind the 4-byte header", seal.Pos(), "sealed[4:4]", "Seal dst is "+render(sa[0]))
			for _, cs := range c.calls(wr, byCallee("(encoding/binary.bigEndian).PutUint16")) {
				_, a := callArgs(cs.Common())
				c.check(unwrap(a[1]) == ssa.Value(cn) && unsliceBase(a[0]) == unsliceBase(sa[0]), "C31.frame-layout", "writer length field = chunk length at offset 0", cs.Pos(), "PutUint16(sealed, cn)", "length field is "+render(a[1])+" into "+render(a[0]))
			}
			_, wa := callArgs(sends[0].Common())
			l := Lin{}
			if s, ok := wa[0].(*ssa.Slice); ok && s.High != nil {
				l = linOf(s.High)
			}
			okLen := l.K == 4 && l.T[render(cn)] == 1 && len(l.T) == 2
			c.check(okLen && unsliceBase(wa[0]) == unsliceBase(sa[0]), "C31.frame-layout", "frame sent = header + ciphertext", sends[0].Pos(), "sealed[:4+cn+overhead]", "sends "+render(wa[0]))
		}
	}
	// reader: header 4 bytes, length at [0:2]
	for _, cs := range c.calls(rd, byCallee("io.ReadFull")) {
		_, a := callArgs(cs.Common())
		if _, lo, hi, ok := sliceBounds(a[1]); ok && hi > 0 {
			c.check(lo == 0 && hi == 4, "C31.frame-layout", "reader header size", cs.Pos(), "4 bytes", fmt.Sprintf("header read is [%d:%d]", lo, hi))
			if lenField != nil {
				_, la := callArgs(lenField.(*ssa.Call).Common())
				c.check(unsliceBase(la[0]) == unsliceBase(a[1]), "C31.frame-layout", "reader length field at offset 0 of the header", cs.Pos(), "Uint16(header)", "length decoded from "+render(la[0]))
			}
		}
	}

	// ---- increaseNonce: big-endian counter over the whole nonce
	if in := c.mustFn(pkg, "SecureAead", "increaseNonce"); in != nil {
		okInc := false
		for _, bl := range in.Blocks {
			for _, i := range bl.Instrs {
				if st, ok := i.(*ssa.Store); ok && strings.HasPrefix(render(st.Addr), "&$r.nonce[") {
					l := linOf(st.Val)
					okInc = l.K == 1 && len(l.T) == 1
				}
			}
		}
		c.check(okInc, "C31.nonce-pair", "increaseNonce increments the nonce in place", in.Pos(), "nonce[i]++ with carry", "no in-place increment of sa.nonce")
	}

	// ---- key-split
	if ns := c.mustFn(pkg, "", "NewSecureConn"); ns != nil {
		var inS, outS ssa.Value
		for _, st := range fieldStoresAny([]*ssa.Function{ns}, "SecureConn") {
			fn := fieldName(st.Addr.X.Type(), st.Addr.Field)
			if call, ok := st.Store.Val.(*ssa.Extract); ok {
				if cl, ok := call.Tuple.(*ssa.Call); ok && calleeName(cl.Common()) == "network.newSecureAead" {
					if fn == "in" {
						inS = cl.Call.Args[2]
					}
					if fn == "out" {
						outS = cl.Call.Args[2]
					}
				}
			}
		}
		if inS == nil || outS == nil {
			c.undecided("C31.key-split", "NewSecureConn", ns.Pos(), "in/out AEADs not found")
		} else {
			type pick struct{ lower, idx string }
			classify := func(v ssa.Value) map[string]string {
				out := map[string]string{}
				for _, fl := range flowsOf(v, nil) {
					r := render(fl.Src)
					key := "?"
					if _, ok := holds(fl.Guards, wTrue("isLower", `^\$2\.isLower$`)); ok {
						key = "lower"
					} else if _, ok := holds(fl.Guards, wFalse("!isLower", `^\$2\.isLower$`)); ok {
						key = "upper"
					}
					if _, two := holds(fl.Guards, wGE("≥2 secrets", -2, t(1, `^len\(\$2\.secret\)$`))); !two {
						key = "single:" + key
					}
					out[key] = r
				}
				return out
			}
			ci, co := classify(inS), classify(outS)
			okSplit := ci["lower"] == "$2.secret[0]" && co["lower"] == "$2.secret[1]" && ci["upper"] == "$2.secret[1]" && co["upper"] == "$2.secret[0]"
			c.check(okSplit, "C31.key-split", "directions use different secrets, swapped by isLower", ns.Pos(), "lower: in=s0,out=s1; upper: in=s1,out=s0", fmt.Sprintf("in=%v out=%v", ci, co))
		}
		// SecureConn.Read uses in, Write uses out
		if f := c.mustFn(pkg, "SecureConn", "Read"); f != nil {
			for _, rs := range returnSites(f) {
				c.check(strings.HasPrefix(render(rs.Results[0]), "$r.in.Read($0)"), "C31.key-split", "SecureConn.Read uses the inbound AEAD", rs.pos(), "c.in.Read(b)", render(rs.Results[0]))
			}
		}
		if f := c.mustFn(pkg, "SecureConn", "Write"); f != nil {
			for _, rs := range returnSites(f) {
				c.check(strings.HasPrefix(render(rs.Results[0]), "$r.out.Write($0)"), "C31.key-split", "SecureConn.Write uses the outbound AEAD", rs.pos(), "c.out.Write(b)", render(rs.Results[0]))
			}
		}
	}
	// isLower writers
	for _, st := range fieldStores(pf, "secureKey", "isLower") {
		name := "isLower store in " + fnName(st.Fn)
		if st.Fn.Name() != "setPeerPublicKey" {
			c.violate("C31.key-split", name, st.Store.Pos(), "isLower may only be decided when the peer key is set")
			continue
		}
		if isConstBool(st.Store.Val, true) {
			c.requireAtAny("C31.key-split", name+" (true)", st.Store, "peer key > own key", wGE("pX > X", -1, t(1, `^\$r\.pX$`), t(-1, `^\$r\..*X$`)), wGE("pY > Y", -1, t(1, `^\$r\.pY$`), t(-1, `^\$r\..*Y$`)))
		} else {
			c.check(render(st.Store.Val) == "$1", "C31.key-split", name+" (tie)", st.Store.Pos(), "defaultLower", "stores "+render(st.Store.Val))
			c.requireAt("C31.key-split", name+" (tie)", st.Store, wEQ("pX == X", 0, t(1, `^\$r\.pX$`), t(-1, `^\$r\..*X$`)))
			c.requireAt("C31.key-split", name+" (tie)", st.Store, wEQ("pY == Y", 0, t(1, `^\$r\.pY$`), t(-1, `^\$r\..*Y$`)))
		}
	}

	// ---- hkdf-offsets
	if hk := c.mustFn(pkg, "secureKey", "hkdf"); hk != nil {
		var secretCopy, extraCopy *ssa.Call
		for _, cs := range c.calls(hk, byCallee("builtin:copy")) {
			call := cs.Instr.(*ssa.Call)
			d := render(call.Call.Args[0])
			if strings.HasPrefix(d, "$r.secret[") {
				secretCopy = call
			}
			if d == "$r.extra" {
				extraCopy = call
			}
		}
		if secretCopy == nil || extraCopy == nil {
			c.undecided("C31.hkdf-offsets", "hkdf", hk.Pos(), "secret/extra copies not found")
		} else {
			src, ok := secretCopy.Call.Args[1].(*ssa.Slice)
			nphi, isPhi := (ssa.Value)(nil), false
			if ok {
				_, isPhi = src.Low.(*ssa.Phi)
				nphi = src.Low
			}
			adv := false
			var step ssa.Value
			if isPhi {
				p := nphi.(*ssa.Phi)
				h := loopHeaderOf(secretCopy.Block())
				for i, e := range p.Edges {
					if bo, ok := e.(*ssa.BinOp); ok && bo.Op == token.ADD && bo.X == nphi && h != nil && h.Dominates(p.Block().Preds[i]) && h.Dominates(bo.Block()) && bo.Block() != h {
						adv = true
						step = bo.Y
					}
				}
				if h != nil && p.Block() != h {
					adv = false
				}
			}
			// the same offsets written as a product: b[i·L : i·L+L] for the loop index i, extra at count·L
			prodForm := false
			if !adv && ok {
				if li, lb, isLoop := indexLoop(loopHeaderOf(secretCopy.Block())); isLoop {
					lo := linOf(src.Low)
					hi := linOf(src.High)
					if mul, isMul := src.Low.(*ssa.BinOp); isMul && mul.Op == token.MUL && (mul.X == li || mul.Y == li) {
						stepV := mul.Y
						if mul.Y == li {
							stepV = mul.X
						}
						d := hi.add(lo, -1)
						okStep := len(d.T) == 1 && d.T[render(stepV)] == 1 && d.K == 0
						// the bound is the number of secrets: numOfSecret or len(k.secret) (= make(.., numOfSecret))
						rb := render(lb)
						okBound := rb == "$0" || rb == "len($r.secret)" || rb == "len(make([][]byte,$0))" || strings.HasPrefix(rb, "len(make([][]byte,$0")
						es, okE := extraCopy.Call.Args[1].(*ssa.Slice)
						okExtra := false
						if okE && es.Low != nil {
							if em, isMul := es.Low.(*ssa.BinOp); isMul && em.Op == token.MUL {
								ex, ey := render(em.X), render(em.Y)
								okExtra = (ex == "$0" && ey == render(stepV)) || (ey == "$0" && ex == render(stepV))
							}
						}
						prodForm = okStep && okBound && okExtra
					}
				}
			}
			if prodForm {
				c.ok("C31.hkdf-offsets", "output offset advances inside the per-secret loop", secretCopy.Pos(), "b[i·L : i·L+L], extra at numOfSecret·L")
			} else {
				c.check(adv, "C31.hkdf-offsets", "output offset advances inside the per-secret loop", secretCopy.Pos(), "n += secretLen per secret", "every secret is copied from the same HKDF output range (the offset does not advance per secret), so both directions share one key")
			}
			if prodForm {
				// buffer = secretLen * (numOfSecret+1)
				for _, cs := range c.calls(hk, byCallee("io.ReadFull")) {
					_, a := callArgs(cs.Common())
					if ms, ok := unsliceBase(a[1]).(*ssa.MakeSlice); ok {
						r := render(ms.Len)
						c.check(strings.Contains(r, "($0 + 1)") && strings.Contains(r, "*"), "C31.hkdf-offsets", "HKDF output covers all secrets and the extra", ms.Pos(), r, "HKDF output length is "+r)
					}
				}
			} else if adv && ok && src.High != nil {
				l := linOf(src.High)
				c.check(l.T[render(nphi)] == 1 && l.T[render(step)] == 1 && l.K == 0, "C31.hkdf-offsets", "secret range is [n, n+secretLen)", secretCopy.Pos(), "b[n:n+secretLen]", "secret copied from "+render(secretCopy.Call.Args[1]))
			}
			es, okE := extraCopy.Call.Args[1].(*ssa.Slice)
			c.check(prodForm || (okE && es.Low == nphi), "C31.hkdf-offsets", "session extra is the range after the last secret", extraCopy.Pos(), "b[n:n+secretLen] after the loop", "extra copied from "+render(extraCopy.Call.Args[1]))
			// buffer = secretLen * (numOfSecret+1)
			for _, cs := range c.calls(hk, byCallee("io.ReadFull")) {
				_, a := callArgs(cs.Common())
				if ms, ok := unsliceBase(a[1]).(*ssa.MakeSlice); ok {
					r := render(ms.Len)
					c.check(strings.Contains(r, "($0 + 1)") && strings.Contains(r, "*"), "C31.hkdf-offsets", "HKDF output covers all secrets and the extra", ms.Pos(), r, "HKDF output length is "+r)
				}
			}
		}
	}
	// ---- secret-count
	for _, st := range fieldStores(pf, "Authenticator", "secureKeyNum") {
		k, ok := constInt(st.Store.Val)
		c.check(ok && k >= 2, "C31.secret-count", "authenticator derives ≥2 secrets", st.Store.Pos(), fmt.Sprintf("%d", k), "secureKeyNum = "+render(st.Store.Val)+": a single secret would key both directions")
	}
	for _, f := range pf {
		for _, cs := range c.calls(f, byCallee("(*network.secureKey).setup")) {
			_, a := callArgs(cs.Common())
			c.check(strings.HasSuffix(render(a[3]), ".secureKeyNum"), "C31.secret-count", "setup uses the authenticator's secret count", cs.Pos(), render(a[3]), "setup called with "+render(a[3]))
		}
	}
	runC31Extra(c, pf)
}

// runC31Extra: the nonce is a full multi-byte counter, every connection read
// is a full read, and each end derives from the key the peer sent.
func runC31Extra(c *Ctx, pf []*ssa.Function) {
	const pkg = "network"
	if f := c.mustFn(pkg, "SecureAead", "increaseNonce"); f != nil {
		n := 0
		for _, b := range f.Blocks {
			for _, in := range b.Instrs {
				st, ok := in.(*ssa.Store)
				if !ok || !strings.HasPrefix(render(st.Addr), "&$r.nonce[") {
					continue
				}
				n++
				ia, _ := st.Addr.(*ssa.IndexAddr)
				h := loopHeaderOf(b)
				var phi *ssa.Phi
				if ia != nil {
					phi, _ = ia.Index.(*ssa.Phi)
				}
				okLoop := h != nil && phi != nil && phi.Block() == h
				desc := ""
				if okLoop {
					for i, e := range phi.Edges {
						if !h.Dominates(h.Preds[i]) {
							okLoop = okLoop && render(e) == "($r.aead.NonceSize() - 1)"
							desc += "from " + render(e)
							continue
						}
						bo, isBo := e.(*ssa.BinOp)
						k := int64(0)
						if isBo {
							k, _ = constInt(bo.Y)
						}
						okLoop = okLoop && isBo && bo.X == ssa.Value(phi) && bo.Op == token.SUB && k == 1
					}
				}
				c.check(okLoop, "C31.nonce-counter", "the nonce increment runs over all nonce bytes, last byte first", st.Pos(), "loop i = NonceSize()-1 … 0 "+desc, "the increment touches "+render(st.Addr)+" outside a loop over the whole nonce: the counter has a short period and (key, nonce) pairs repeat, so replayed/reordered frames open")
				if okLoop {
					// the walk goes on to the next byte only on wrap-around, and the last store wins
					_, cont := pathAvoidingEdges(f, st, func(in ssa.Instruction) bool { return in == h.Instrs[0] }, nil, wEQ("byte wrapped to 0", 0, t(1, `^\$r\.nonce\[phi\(`)))
					c.check(!cont, "C31.nonce-counter", "carry only when the byte wrapped", st.Pos(), "continue ⇒ nonce[i] == 0", "the loop goes on to the next byte without the current one having wrapped")
					v, isAdd := st.Val.(*ssa.BinOp)
					k := int64(0)
					if isAdd {
						k, _ = constInt(v.Y)
					}
					c.check(isAdd && v.Op == token.ADD && k == 1 && render(v.X) == strings.TrimPrefix(render(st.Addr), "&"), "C31.nonce-counter", "each step adds one", st.Pos(), "nonce[i]++", "stores "+render(st.Val))
				}
			}
		}
		if n != 1 {
			c.undecided("C31.nonce-counter", "increaseNonce", f.Pos(), fmt.Sprintf("expected one nonce store, found %d", n))
		}
	}
	if f := c.mustFn(pkg, "SecureAead", "Read"); f != nil {
		full := 0
		for _, cs := range c.calls(f, func(cc *ssa.CallCommon) bool { return true }) {
			cc := cs.Common()
			if cc.IsInvoke() && render(cc.Value) == "$r.conn" {
				c.violate("C31.read-contract", "connection is read only through io.ReadFull", cs.Pos(), "direct "+methodName(cc)+" on the connection: a frame delivered in several pieces is opened half-filled and rejected")
			}
			if calleeName(cc) == "io.ReadFull" {
				_, a := callArgs(cc)
				if strings.HasSuffix(render(a[0]), "$r.conn") {
					full++
				}
			}
		}
		c.check(full == 2, "C31.read-contract", "frame header and body are each read in full", f.Pos(), "2× io.ReadFull(conn, …)", fmt.Sprintf("%d full reads of the connection", full))
	}
	// each end feeds the key received from the peer, with complementary roles
	var roles []string
	for _, f := range pf {
		for _, cs := range c.calls(f, byCallee("(*network.Authenticator).applySecureConn")) {
			_, a := callArgs(cs.Common())
			param := a[len(a)-2]
			okP := false
			src := render(param)
			if ld, ok := param.(*ssa.UnOp); ok {
				if fa, ok := ld.X.(*ssa.FieldAddr); ok && fieldName(fa.X.Type(), fa.Field) == "SecureParam" {
					for _, dc := range c.calls(f, byMethod("decodePeerPacket")) {
						_, da := callArgs(dc.Common())
						for _, x := range da {
							if mi, ok := x.(*ssa.MakeInterface); ok {
								x = mi.X
							}
							if x == fa.X && dominatesInstr(dc.Instr, cs.Instr) {
								okP = true
							}
						}
					}
				}
			}
			c.check(okP, "C31.peer-param", fnName(f)+" derives the keys from the public key the peer sent", cs.Pos(), src+" of the decoded message", "the key agreement is fed "+src+", which is not the SecureParam of the message decoded from the peer: the two ends derive different secrets")
			roles = append(roles, render(a[len(a)-1]))
		}
	}
	c.check(len(roles) == 2 && roles[0] != roles[1], "C31.peer-param", "requester and responder take complementary default roles", token.NoPos, strings.Join(roles, " / "), "roles: "+strings.Join(roles, " / "))
}

// helperCopy: v is a call of a function with a body in the caller's package all of whose returns
// are copy(p_i, p_j) of two of its parameters; dst and src are the corresponding arguments.
func helperCopy(v ssa.Value) (dst, src ssa.Value, g *ssa.Function, ok bool) {
	call, isCall := v.(*ssa.Call)
	if !isCall || call.Parent() == nil {
		return nil, nil, nil, false
	}
	g = call.Common().StaticCallee()
	if g == nil || len(g.Blocks) == 0 || g.Pkg != call.Parent().Pkg || g.Signature.Results().Len() != 1 {
		return nil, nil, nil, false
	}
	idx := func(v ssa.Value) int {
		for i, p := range g.Params {
			if ssa.Value(p) == v {
				return i
			}
		}
		return -1
	}
	di, si := -1, -1
	for _, rs := range returnSites(g) {
		cp, isCp := rs.Results[0].(*ssa.Call)
		if !isCp || calleeName(cp.Common()) != "builtin:copy" {
			return nil, nil, nil, false
		}
		d, s := idx(cp.Call.Args[0]), idx(cp.Call.Args[1])
		if d < 0 || s < 0 || (di >= 0 && (d != di || s != si)) {
			return nil, nil, nil, false
		}
		di, si = d, s
	}
	args := call.Common().Args
	if di < 0 || di >= len(args) || si >= len(args) {
		return nil, nil, nil, false
	}
	return args[di], args[si], g, true
}
