package main

import (
	"fmt"
	"go/token"
	"go/types"
	"regexp"
	"strings"

	"golang.org/x/tools/go/ssa"
)

// C34 — staking operations conserve ICX and keep stake accounting consistent.
func init() {
	register(&Prop{
		ID:             "C34",
		Pkgs:           []string{"icon/iiss", "icon/iiss/icstate"},
		Run:            runC34,
		MinObligations: 30,
		Technique:      "static analysis: value provenance between paired money movements (amount removed from unstaking = amount deposited; amount withdrawn = change of the account's staked total read around the mutation), accumulation/partition shape of the expiry loops, guard dominance and order of the voting-power checks relative to the mutations they must see",
		LevelText:      "Decides on all paths the pairings the conservation argument rests on: (1) when an unstake timer fires, every slot of the account is either kept or added into a freshly allocated accumulator that is the value returned, and exactly that value is deposited to the same address, only if removal succeeded (same for unbonds and the unbonding total); (2) SetStake withdraws exactly newTotalStake − oldTotalStake, where old is read before and new after all mutations of the account, only when positive; the network total moves by newStake − oldStake computed before the account's stake is overwritten, and each step aborts the operation on error; the balance check covers balance + staked total ≥ new stake; (3) voting power: SetStake only with newStake ≥ UsingStake(); SetDelegation only with stake ≥ new delegation + bond + unbond; SetBond only with stake ≥ new bond + delegation before, and stake ≥ UsingStake() evaluated after the bonds and unbonds were updated, on every successful exit.",
		LevelNote:      "Not decided: the global invariants over arbitrary operation histories (supply = balances + stake + unstaking; network totals = per-account sums), which quantify over runtime state; the rules are necessary conditions whose breakage breaks them.",
		Explanation:    "C34 rules: expire-sum (K5 accumulation + K2 partition), unstake-return (K5), stake-pair (K5+K8), voting-power (K1+K8).",
		Mutants: []Mutant{
			{Name: "unstake-last-slot-only", File: "icon/iiss/icstate/account.go", Old: "\t\t\tra.Add(ra, u.GetValue())", New: "\t\t\tra = u.GetValue()", Desc: "two slots expiring together: only one is returned"},
			{Name: "unbond-total-not-reduced", File: "icon/iiss/icstate/account.go", Old: "\t\t\tremoved.Add(removed, u.Value())", New: "\t\t\tremoved = u.Value()", Desc: "unbonding total keeps expired amounts"},
			{Name: "deposit-on-error", File: "icon/iiss/timerhandler.go", Old: "\t\tra, err := ea.RemoveUnstake(h)\n\t\tif err != nil {\n\t\t\treturn err\n\t\t}\n", New: "\t\tra, err := ea.RemoveUnstake(h)\n", Desc: "deposit without a successful removal"},
			{Name: "deposit-other-amount", File: "icon/iiss/timerhandler.go", Old: "wc.Deposit(a, ra, module.Unstake)", New: "wc.Deposit(a, ra.Set(ea.GetUnstakeAmount()), module.Unstake)", Desc: "deposits what is still unstaking, not what was removed"},
			{Name: "bond-check-before-update", File: "icon/iiss/extension.go", Old: "\taccount.SetBonds(bonds)\n\tunbondingHeight := es.State.GetUnbondingPeriodMultiplier()*es.State.GetTermPeriod() + blockHeight", New: "\tif account.Stake().Cmp(account.UsingStake()) == -1 {\n\t\treturn icmodule.IllegalArgumentError.Errorf(\"Not enough voting power\")\n\t}\n\taccount.SetBonds(bonds)\n\tunbondingHeight := es.State.GetUnbondingPeriodMultiplier()*es.State.GetTermPeriod() + blockHeight", Desc: "control: an extra early check is harmless", Equivalent: true},
			{Name: "bond-check-only-before", File: "icon/iiss/extension.go", Old: "\tif account.Stake().Cmp(account.UsingStake()) == -1 {\n\t\treturn icmodule.IllegalArgumentError.Errorf(\"Not enough voting power\")\n\t}\n\tfor _, timerJobInfo := range tl {", New: "\tfor _, timerJobInfo := range tl {", Desc: "unbonding ICX not counted against the stake"},
			{Name: "delegation-ignores-unbond", File: "icon/iiss/extension.go", Old: "\tusing.Add(using, account.Unbond())\n", New: "", Desc: "delegation may exceed stake − unbonding"},
			{Name: "stake-below-using", File: "icon/iiss/extension.go", Old: "\tif v.Cmp(usingStake) < 0 {", New: "\tif v.Sign() < 0 {", Desc: "stake can drop below delegated+bonded"},
			{Name: "withdraw-stake-increment", File: "icon/iiss/extension.go", Old: "\tdiff := new(big.Int).Sub(totalStake, oldTotalStake)", New: "\tdiff := new(big.Int).Set(stakeInc)", Desc: "withdraws the stake increase even when it is covered by pending unstakes"},
			{Name: "old-total-derived", File: "icon/iiss/extension.go", Old: "\ttotalStake := ia.GetTotalStake()\n\tdiff := new(big.Int).Sub(totalStake, oldTotalStake)", New: "\ttotalStake := ia.GetTotalStake()\n\toldTotalStake = new(big.Int).Sub(totalStake, stakeInc)\n\tdiff := new(big.Int).Sub(totalStake, oldTotalStake)", Desc: "old total reconstructed from the stake increment: wrong when pending unstakes absorb it"},
			{Name: "total-stake-not-updated-on-path", File: "icon/iiss/extension.go", Old: "\tif err = es.State.SetTotalStake(new(big.Int).Add(tStake, stakeInc)); err != nil {", New: "\tif err = es.State.SetTotalStake(new(big.Int).Add(tStake, v)); err != nil {", Desc: "network total moves by the new stake instead of the increment"},
		},
	})
}

// accumulated: v is a fresh big.Int accumulator `acc := new(big.Int)` that is
// only ever updated by acc.Add(acc, x); returns the alloc and the Add calls.
func bigAccumulator(fn *ssa.Function, v ssa.Value) (*ssa.Alloc, []*ssa.Call, string) {
	al, ok := v.(*ssa.Alloc)
	if !ok || !strings.Contains(al.Type().String(), "big.Int") {
		return nil, nil, "the value is " + render(v) + ", not a freshly allocated accumulator"
	}
	var adds []*ssa.Call
	for _, b := range fn.Blocks {
		for _, in := range b.Instrs {
			cl, ok := in.(*ssa.Call)
			if !ok {
				continue
			}
			r, a := callArgs(cl.Common())
			if r != ssa.Value(al) {
				continue
			}
			if calleeName(cl.Common()) != "(*math/big.Int).Add" || a[0] != ssa.Value(al) {
				return nil, nil, "the accumulator is updated by " + calleeName(cl.Common()) + " (not acc.Add(acc, x))"
			}
			adds = append(adds, cl)
		}
	}
	return al, adds, ""
}

func runC34(c *Ctx) {
	const st = "icon/iiss/icstate"
	const ii = "icon/iiss"

	// ------------------------------------------------------------ expire-sum
	for _, spec := range []struct{ fn, field, getter, expire string }{
		{"RemoveUnstake", "unstakes", "GetValue", "GetExpire"},
		{"RemoveUnbond", "unbonds", "Value", "Expire"},
	} {
		fn := c.mustFn(st, "AccountState", spec.fn)
		if fn == nil {
			continue
		}
		// the kept list
		var keep *ssa.Call
		for _, cs := range c.calls(fn, byCallee("builtin:append")) {
			keep = cs.Instr.(*ssa.Call)
		}
		// the accumulator: returned (unstake) or subtracted from the total (unbond)
		var accV ssa.Value
		if spec.fn == "RemoveUnstake" {
			for _, e := range successAlts(fn) {
				if isNilConst(e.Results[0]) {
					continue
				}
				if accV != nil && accV != e.Results[0] {
					c.violate("C34.expire-sum", spec.fn+": one returned amount", e.pos(), "different values returned")
				}
				accV = e.Results[0]
			}
		} else {
			for _, fs := range fieldStoresAny([]*ssa.Function{fn}, "accountData") {
				if fieldName(fs.Addr.X.Type(), fs.Addr.Field) != "totalUnbond" {
					continue
				}
				x, y, ok := bigBin(fs.Store.Val, "Sub")
				if ok && strings.HasSuffix(render(x), ".Unbond()") {
					accV = y
				} else {
					c.violate("C34.expire-sum", "RemoveUnbond lowers the unbonding total by what was removed", fs.Store.Pos(), "totalUnbond = "+render(fs.Store.Val))
				}
			}
		}
		if keep == nil || accV == nil {
			c.violate("C34.expire-sum", spec.fn+" structure", fn.Pos(), "expected a kept list and an accumulated amount")
			continue
		}
		al, adds, why := bigAccumulator(fn, accV)
		if !c.check(al != nil && len(adds) == 1, "C34.expire-sum", spec.fn+": the amount is accumulated over all expired slots", accV.Pos(), "acc := new(big.Int); acc.Add(acc, slot)", spec.fn+" does not sum the expired slots into a private accumulator: "+why) {
			continue
		}
		add := adds[0]
		_, a := callArgs(add.Common())
		okVal := strings.HasSuffix(render(a[1]), "."+spec.getter+"()")
		c.check(okVal, "C34.expire-sum", spec.fn+": each expired slot contributes its value", add.Pos(), render(a[1]), "adds "+render(a[1]))
		// same slot either accumulated or kept; on the equal-expire edge accumulated
		h := loopHeaderOf(add.Block())
		if h == nil || loopHeaderOf(keep.Block()) != h {
			c.violate("C34.expire-sum", spec.fn+": one loop over the slots", add.Pos(), "accumulate and keep are not in one loop")
			continue
		}
		tr, by := pathAvoiding(fn, h.Instrs[len(h.Instrs)-1], func(in ssa.Instruction) bool { return in == h.Instrs[0] }, func(in ssa.Instruction) bool { return in == ssa.Instruction(add) || in == ssa.Instruction(keep) })
		_ = tr
		// restrict to the loop body
		tr2, by2 := loopBypass(fn, h, add)
		_ = tr2
		_ = by2
		body := loopBody(h)
		old := pathEdgeFilter
		pathEdgeFilter = func(p, s *ssa.BasicBlock) bool { return !body[s] }
		tr, by = pathAvoiding(fn, h.Instrs[len(h.Instrs)-1], func(in ssa.Instruction) bool { return in == h.Instrs[0] }, func(in ssa.Instruction) bool { return in == ssa.Instruction(add) || in == ssa.Instruction(keep) })
		pathEdgeFilter = old
		c.check(!by, "C34.expire-sum", spec.fn+": every slot is either kept or accounted for", add.Pos(), "partition", "a slot can be dropped without being added to the amount ("+traceString(tr)+")")
		// the slot accumulated is the one tested, and the test is equality with the height
		slot, _ := callArgs(a[1].(*ssa.Call).Common())
		okG := false
		for _, g := range guardsAtBlock(add.Block()) {
			p := predOf(g)
			if p.Kind == "eq" && len(p.L.T) == 2 && p.L.T["$0"] != 0 {
				for atom := range p.L.T {
					if strings.HasSuffix(atom, "."+spec.expire+"()") && strings.HasPrefix(atom, strings.TrimPrefix(render(slot), "&")) {
						okG = true
					}
				}
			}
		}
		c.check(okG, "C34.expire-sum", spec.fn+": a slot is removed exactly when its expiry equals the timer height", add.Pos(), "expire == height", "the accumulate branch is not guarded by expire == height of the same slot")
		var keepElem ssa.Value
		if el, ok := varargElems(keep.Call.Args[1]); ok && len(el) == 1 {
			keepElem = el[0]
		}
		c.check(keepElem != nil && render(keepElem) == strings.TrimPrefix(render(slot), "&") || (keepElem != nil && render(keepElem) == render(slot)), "C34.expire-sum", spec.fn+": the slot kept is the slot tested", keep.Pos(), "append(tmp, u)", "keeps "+render(keepElem)+" while testing "+render(slot))
		// the list is replaced by the kept one
		okRepl := false
		for _, fs := range fieldStoresAny([]*ssa.Function{fn}, "accountData") {
			if fieldName(fs.Addr.X.Type(), fs.Addr.Field) == spec.field {
				var bs []ssa.Value
				appendBases(fs.Store.Val, map[ssa.Value]bool{}, &bs)
				okRepl = len(bs) >= 1
				for _, b := range bs {
					if !isNilConst(b) {
						okRepl = false
					}
				}
			}
		}
		c.check(okRepl, "C34.expire-sum", spec.fn+": the account keeps exactly the unexpired slots", fn.Pos(), "a."+spec.field+" = tmp", "the slot list is not replaced by the kept list")
	}

	// ------------------------------------------------------------ unstake-return
	if fn := c.mustFn(ii, "ExtensionStateImpl", "handleUnstakingTimer"); fn != nil {
		deps := c.calls(fn, byMethod("Deposit"))
		rems := c.calls(fn, byCallee("AccountState).RemoveUnstake"))
		if len(deps) != 1 || len(rems) != 1 {
			c.violate("C34.unstake-return", "handleUnstakingTimer structure", fn.Pos(), "expected RemoveUnstake then Deposit")
		} else {
			_, a := callArgs(deps[0].Common())
			rr, ra := callArgs(rems[0].Common())
			okAmt := false
			if ex, ok := a[1].(*ssa.Extract); ok && ex.Tuple == rems[0].Instr.Value() && ex.Index == 0 {
				okAmt = true
			}
			c.check(okAmt, "C34.unstake-return", "the amount deposited is the amount removed from unstaking", deps[0].Pos(), "Deposit(a, RemoveUnstake(h)#0)", "deposits "+render(a[1])+", which is not what RemoveUnstake returned")
			c.check(strings.HasSuffix(render(rr), ".GetAccountState("+render(a[0])+")"), "C34.unstake-return", "deposited to the owner of the removed unstake", deps[0].Pos(), render(a[0]), "removes from "+render(rr)+", deposits to "+render(a[0]))
			c.check(render(ra[0]) == "$2", "C34.unstake-return", "removes the slots expiring at the timer height", rems[0].Pos(), "h", "removes at "+render(ra[0]))
			ev := errValueOf(rems[0].Instr)
			pathEdgeFilter = nilErrEdgeFilter(ev)
			tr, reach := pathAvoiding(fn, rems[0].Instr, isInstr(deps[0].Instr), nil)
			pathEdgeFilter = nil
			c.check(ev != nil && !reach, "C34.unstake-return", "no deposit unless the removal succeeded", deps[0].Pos(), "err == nil", "Deposit is reachable although RemoveUnstake failed ("+traceString(tr)+")")
			h := loopHeaderOf(deps[0].Instr.Block())
			if h != nil {
				tr, by := loopBypass(fn, h, deps[0].Instr)
				c.check(!by, "C34.unstake-return", "every account of the timer gets its ICX back", deps[0].Pos(), "no bypass", "an account of the timer can be skipped ("+traceString(tr)+")")
				_, once := pathAvoiding(fn, deps[0].Instr, isInstr(deps[0].Instr), func(in ssa.Instruction) bool { return in == rems[0].Instr })
				c.check(!once, "C34.unstake-return", "one deposit per removal", deps[0].Pos(), "paired", "Deposit can repeat without a new removal")
			} else {
				c.violate("C34.unstake-return", "timer accounts handled in a loop", deps[0].Pos(), "not in a loop")
			}
			dv := errValueOf(deps[0].Instr)
			for _, e := range successAlts(fn) {
				pathEdgeFilter = nilErrEdgeFilter(dv)
				tr, reach := pathAvoiding(fn, deps[0].Instr, isInstr(e.Ret), nil)
				pathEdgeFilter = nil
				c.check(!reach, "C34.unstake-return", "a failed deposit fails the block", e.pos(), "error propagates", "a failed Deposit is swallowed ("+traceString(tr)+")")
			}
		}
	}

	// ------------------------------------------------------------ stake-pair
	if fn := c.mustFn(ii, "ExtensionStateImpl", "SetStake"); fn != nil {
		wd := c.calls(fn, byMethod("Withdraw"))
		sts := c.calls(fn, byCallee("State).SetTotalStake"))
		ss := c.calls(fn, byCallee("AccountState).SetStake"))
		var muts []callSite
		muts = append(muts, c.calls(fn, byCallee("AccountState).DecreaseUnstake", "AccountState).IncreaseUnstake"))...)
		muts = append(muts, ss...)
		if len(wd) != 1 || len(sts) != 1 || len(ss) != 1 || len(muts) != 3 {
			c.violate("C34.stake-pair", "SetStake structure", fn.Pos(), "expected unstake update, SetStake, SetTotalStake, Withdraw")
		} else {
			_, wa := callArgs(wd[0].Common())
			x, y, ok := bigBin(wa[1], "Sub")
			okPair := ok
			if ok {
				nx, okx := x.(*ssa.Call)
				oy, oky := y.(*ssa.Call)
				okPair = okx && oky && strings.HasSuffix(calleeName(nx.Common()), "accountData).GetTotalStake") && strings.HasSuffix(calleeName(oy.Common()), "accountData).GetTotalStake")
				if okPair {
					for _, m := range muts {
						if !dominatesInstr(oy, m.Instr) {
							okPair = false
						}
						if _, reach := pathAvoiding(fn, nx, isInstr(m.Instr), nil); reach {
							okPair = false
						}
					}
					// both read the same account
					okPair = okPair && render(nx.Call.Args[0]) == render(oy.Call.Args[0])
				}
			}
			c.check(okPair, "C34.stake-pair", "ICX withdrawn = staked total after − staked total before the update", wd[0].Pos(), "Withdraw(from, newTotalStake − oldTotalStake)", "the amount withdrawn is "+render(wa[1])+": not the change of the account's stake+unstaking read around the mutation, so balance and stake no longer add up")
			c.check(render(wa[0]) == "$0.From()", "C34.stake-pair", "withdrawn from the staker", wd[0].Pos(), "from", "withdraws from "+render(wa[0]))
			c.requireAt("C34.stake-pair", "withdraw only a positive difference", wd[0].Instr, wGE("diff > 0", -1, t(1, `\.Sub\(.*GetTotalStake\(\),.*GetTotalStake\(\)\)$`)))
			// a negative difference is impossible (panic), a positive one is always withdrawn
			for _, e := range successAlts(fn) {
				if !dominatesInstr(sts[0].Instr, e.Ret) {
					continue
				}
				tr, reach := pathAvoidingEdges(fn, sts[0].Instr, isInstr(e.Ret), isInstr(wd[0].Instr), wGE("diff ≤ 0", 0, t(-1, `\.Sub\(.*GetTotalStake\(\),.*GetTotalStake\(\)\)$`)))
				c.check(!reach, "C34.stake-pair", "a positive difference is always withdrawn", e.pos(), "no bypass", "SetStake can finish with more staked than before without withdrawing ("+traceString(tr)+")")
			}
			// total stake moves by v − oldStake, computed before the stake is overwritten
			_, ta := callArgs(sts[0].Common())
			tx, ty, tok := bigBin(ta[0], "Add")
			okTot := tok
			if tok {
				gt, okg := tx.(*ssa.Call)
				okTot = okg && strings.HasSuffix(calleeName(gt.Common()), "State).GetTotalStake")
				ix, iy, iok := bigBin(ty, "Sub")
				okTot = okTot && iok && render(ix) == "$1" && strings.HasSuffix(render(iy), ".Stake()")
				if okTot {
					okTot = dominatesInstr(ty.(*ssa.Call), ss[0].Instr)
				}
			}
			c.check(okTot, "C34.stake-pair", "network total stake moves by newStake − oldStake (old read before it is overwritten)", sts[0].Pos(), "SetTotalStake(total + (v − ia.Stake()))", "the network total is set to "+render(ta[0]))
			_, sa := callArgs(ss[0].Common())
			c.check(render(sa[0]) == "$1", "C34.stake-pair", "the account's stake becomes the requested value", ss[0].Pos(), "ia.SetStake(v)", "sets "+render(sa[0]))
			// order and error discipline: SetStake ok → SetTotalStake ok → (withdraw)
			chain := []callSite{ss[0], sts[0]}
			for i, k := range chain {
				ev := errValueOf(k.Instr)
				var next ssa.Instruction = wd[0].Instr
				if i == 0 {
					next = sts[0].Instr
				}
				pathEdgeFilter = nilErrEdgeFilter(ev)
				tr, reach := pathAvoiding(fn, k.Instr, isInstr(next), nil)
				pathEdgeFilter = nil
				c.check(dominatesInstr(k.Instr, next) && !reach, "C34.stake-pair", methodName(k.Common())+" must succeed before the next step", k.Pos(), "error aborts", "the operation continues after "+methodName(k.Common())+" failed ("+traceString(tr)+")")
			}
			for _, e := range successAlts(fn) {
				if !dominatesInstr(ss[0].Instr, e.Ret) {
					continue
				}
				tr, reach := pathAvoiding(fn, ss[0].Instr, isInstr(e.Ret), isInstr(sts[0].Instr))
				c.check(!reach, "C34.stake-pair", "a changed stake always updates the network total", e.pos(), "no bypass", "SetStake can succeed with the account updated and the network total unchanged ("+traceString(tr)+")")
			}
			// balance covers the new stake
			c.requireAt("C34.stake-pair", "balance + staked total covers the new stake", ss[0].Instr, wGE("balance + totalStake ≥ v", 0, t(1, `\.Add\(\$0\.GetBalance\(\$0\.From\(\)\),.*GetTotalStake\(\)\)$`), t(-1, `^\$1$`)))
			// voting power
			c.requireAt("C34.voting-power", "SetStake: new stake ≥ delegated + bonded + unbonding", ss[0].Instr, wGE("v ≥ UsingStake()", 0, t(1, `^\$1$`), t(-1, `\.UsingStake\(\)$`)))
		}
	}

	// ------------------------------------------------------------ voting-power: delegation
	if fn := c.mustFn(ii, "ExtensionStateImpl", "SetDelegation"); fn != nil {
		sd := c.calls(fn, byCallee("AccountState).SetDelegation"))
		if len(sd) != 1 {
			c.violate("C34.voting-power", "SetDelegation structure", fn.Pos(), "expected one account.SetDelegation")
		} else {
			// find the Cmp guard: Stake().Cmp(using) with using accumulated from delegation amount + Unbond + Bond
			var cmp *ssa.Call
			for _, g := range guardsAt(sd[0].Instr) {
				bo, ok := g.Cond.(*ssa.BinOp)
				if !ok {
					continue
				}
				for _, v := range []ssa.Value{bo.X, bo.Y} {
					if cl, ok := v.(*ssa.Call); ok && calleeName(cl.Common()) == "(*math/big.Int).Cmp" {
						r, ra := callArgs(cl.Common())
						if strings.HasSuffix(render(r), ".Stake()") || (len(ra) == 1 && strings.HasSuffix(render(ra[0]), ".Stake()")) {
							p := predOf(g)
							if p.Kind == "ge" && p.L.K <= 0 {
								for atom, co := range p.L.T {
									if co == 1 && strings.HasSuffix(atom, ".Stake()") {
										cmp = cl
									}
								}
							}
						}
					}
				}
			}
			if cmp == nil {
				c.violate("C34.voting-power", "SetDelegation: stake ≥ new delegation + bond + unbond", sd[0].Pos(), "no dominating comparison of the stake")
			} else {
				cr, ca := callArgs(cmp.Common())
				using := ca[0]
				if strings.HasSuffix(render(using), ".Stake()") {
					using = cr // written the other way round: using.Cmp(stake)
				}
				parts := map[string]bool{}
				// base: new(big.Int).Set(ds.GetDelegationAmount())
				if cl, ok := using.(*ssa.Call); ok && calleeName(cl.Common()) == "(*math/big.Int).Set" {
					_, sa := callArgs(cl.Common())
					parts[render(sa[0])] = true
				}
				// or the first two parts summed straight into a fresh big.Int
				if cl, ok := using.(*ssa.Call); ok && calleeName(cl.Common()) == "(*math/big.Int).Add" {
					if rcv, sa := callArgs(cl.Common()); len(sa) == 2 {
						if _, fresh := rcv.(*ssa.Alloc); fresh {
							parts[render(sa[0])] = true
							parts[render(sa[1])] = true
						}
					}
				}
				for _, b := range fn.Blocks {
					for _, in := range b.Instrs {
						cl, ok := in.(*ssa.Call)
						if !ok || calleeName(cl.Common()) != "(*math/big.Int).Add" {
							continue
						}
						r, a := callArgs(cl.Common())
						if r == using && a[0] == using && dominatesInstr(cl, cmp) {
							parts[render(a[1])] = true
						}
					}
				}
				has := func(suffix string) bool {
					for p := range parts {
						if strings.HasSuffix(p, suffix) {
							return true
						}
					}
					return false
				}
				c.check(has("$1.GetDelegationAmount()") && has(".Unbond()") && has(".Bond()"), "C34.voting-power", "SetDelegation: stake ≥ new delegation + bond + unbond", cmp.Pos(), "all three parts", fmt.Sprintf("the amount compared with the stake is built from %v: delegation + bond + unbonding must all count", keysOf(parts)))
			}
			_, a := callArgs(sd[0].Common())
			c.check(render(a[0]) == "$1", "C34.voting-power", "SetDelegation stores the delegations that were checked", sd[0].Pos(), "ds", "stores "+render(a[0]))
		}
	}

	// ------------------------------------------------------------ voting-power: bond
	if fn := c.mustFn(ii, "ExtensionStateImpl", "SetBond"); fn != nil {
		sb := c.calls(fn, byCallee("AccountState).SetBonds"))
		uu := c.calls(fn, byCallee("AccountState).UpdateUnbonds"))
		if len(sb) != 1 || len(uu) != 1 {
			c.violate("C34.voting-power", "SetBond structure", fn.Pos(), "expected SetBonds and UpdateUnbonds")
		} else {
			// a check Stake().Cmp(UsingStake()) whose UsingStake is evaluated after both mutations, guarding every success exit
			var post []*ssa.Call
			for _, cs := range c.calls(fn, byCallee("accountData).UsingStake")) {
				cl := cs.Instr.(*ssa.Call)
				if dominatesInstr(sb[0].Instr, cl) && dominatesInstr(uu[0].Instr, cl) {
					post = append(post, cl)
				}
			}
			okPost := false
			for _, e := range successAlts(fn) {
				okE := false
				for _, g := range e.Guards {
					bo, ok := g.Cond.(*ssa.BinOp)
					if !ok {
						continue
					}
					for _, v := range []ssa.Value{bo.X, bo.Y} {
						cl, ok := v.(*ssa.Call)
						if !ok || calleeName(cl.Common()) != "(*math/big.Int).Cmp" {
							continue
						}
						r, a := callArgs(cl.Common())
						for _, p := range post {
							if a[0] == ssa.Value(p) && strings.HasSuffix(render(r), ".Stake()") {
								pd := predOf(g)
								if pd.Kind == "ge" && pd.L.K <= 0 {
									for atom, co := range pd.L.T {
										if co == 1 && strings.HasSuffix(atom, ".Stake()") {
											okE = true
										}
									}
								}
							}
						}
					}
				}
				okPost = okE
				c.check(okE, "C34.voting-power", "SetBond succeeds only with stake ≥ delegated + bonded + unbonding after the update", e.pos(), "Stake().Cmp(UsingStake()) ≥ 0 evaluated after SetBonds/UpdateUnbonds", "SetBond can succeed without the voting-power check seeing the updated bonds and unbonds (unbonding ICX not counted)")
			}
			_ = okPost
			// the early check: stake ≥ new bond + delegation
			c.requireAt("C34.voting-power", "SetBond: stake ≥ new bond + delegation before anything is changed", sb[0].Instr, wGE("stake ≥ bond + delegating", 0, t(1, `\.Stake\(\)$`), t(-1, `\.Add\(.*,.*\.Delegating\(\)\)$`)))
			_, a := callArgs(sb[0].Common())
			c.check(render(a[0]) == "$1", "C34.voting-power", "SetBond stores the bonds that were checked", sb[0].Pos(), "bonds", "stores "+render(a[0]))
		}
	}
	if fn := c.mustFn(st, "accountData", "UsingStake"); fn != nil {
		for _, e := range exitAlts(fn) {
			r := render(e.Results[0])
			c.check(strings.Contains(r, "GetVoting()") && strings.Contains(r, "totalUnbond") && strings.Contains(r, ".Add("), "C34.voting-power", "UsingStake = delegated + bonded + unbonding", e.pos(), r, "UsingStake is "+r)
		}
	}
	runC34Extra(c)
	_ = token.NoPos
}

// runC34Extra: who may create ICX; both timers of a height are served;
// activation/deactivation of a P-Rep moves its collected delegation into/out
// of the network total; a merged unstake slot never expires before the newly
// unstaked amount's own lock period ends; list clones own their elements.
func runC34Extra(c *Ctx) {
	const ii, ics = "icon/iiss", "icon/iiss/icstate"
	// (1) mint sites
	allowed := map[string]string{
		"handleICXIssue":       "block issuance into the treasury (the amount the issue term computed)",
		"handleUnstakingTimer": "return of expired unstakes (amount = RemoveUnstake result, rule unstake-return)",
	}
	nDep := 0
	for _, f := range c.pkgFuncs(ii) {
		if strings.HasSuffix(c.file(f.Pos()), "_test.go") {
			continue
		}
		for _, cs := range c.calls(f, byMethod("Deposit")) {
			if !cs.Common().IsInvoke() {
				continue
			}
			nDep++
			top := f
			for top.Parent() != nil {
				top = top.Parent()
			}
			_, ok := allowed[top.Name()]
			c.check(ok, "C34.mint-sites", "ICX is credited without a matching debit only at the two known sites", cs.Pos(), top.Name()+": "+allowed[top.Name()], fnName(f)+" calls Deposit: ICX is created outside block issuance and unstake return (a claim or refund must Transfer from the account that holds the funds)")
		}
	}
	if nDep < 2 {
		c.undecided("C34.mint-sites", "Deposit call sites in icon/iiss", token.NoPos, fmt.Sprintf("expected ≥2, found %d", nDep))
	}
	// (2) both timers
	if f := c.mustFn(ii, "ExtensionStateImpl", "handleTimerJob"); f != nil {
		us := c.calls(f, byCallee("ExtensionStateImpl).handleUnstakingTimer"))
		ub := c.calls(f, byCallee("ExtensionStateImpl).handleUnbondingTimer"))
		if len(us) != 1 || len(ub) != 1 {
			c.violate("C34.timers", "handleTimerJob serves both timers", f.Pos(), fmt.Sprintf("%d unstaking / %d unbonding handler calls", len(us), len(ub)))
		} else {
			for _, pair := range []struct {
				must callSite
				name string
				snap string
			}{{us[0], "unstaking", `GetUnstakingTimerSnapshot\(`}, {ub[0], "unbonding", `GetUnbondingTimerSnapshot\(`}} {
				bad := false
				tr := ""
				for _, e := range exitAlts(f) {
					if definitelyNonNilErr(e.Results[0], e.Guards) {
						continue
					}
					if t0, by := pathAvoidingEdges(f, f.Blocks[0].Instrs[0], func(in ssa.Instruction) bool { return in == ssa.Instruction(e.Ret) }, func(in ssa.Instruction) bool { return in == ssa.Instruction(pair.must.Instr) },
						wSame("no timer at this height", pair.snap, `^nil$`), wDiffer("the other handler failed", `handleUn(bond|stak)ingTimer\(`, `^nil$`)); by {
						bad = true
						tr = traceString(t0)
					}
				}
				c.check(!bad, "C34.timers", "handleTimerJob cannot succeed without serving the "+pair.name+" timer of the height", pair.must.Pos(), "skipped only when there is none", "a non-failing exit bypasses the "+pair.name+" timer ("+tr+"): the expired amounts of that height are never released")
			}
		}
	}
	// (3) activation ↔ total delegation
	for _, spec := range []struct{ fn, trigger, op string }{{"RegisterPRep", "Activate", "Add"}, {"DisablePRep", "DisableAs", "Sub"}} {
		f := c.fn(ics, "State", spec.fn)
		if f == nil {
			// the disabling function may carry another name: find it by its trigger
			for _, g := range c.pkgFuncs(ics) {
				if g.Signature.Recv() != nil && namedOf(g.Signature.Recv().Type()) == "State" && len(c.calls(g, byMethod(spec.trigger))) > 0 && g.Parent() == nil {
					f = g
				}
			}
		}
		if f == nil {
			c.undecided("C34.activation-total", spec.fn, token.NoPos, "function not found")
			continue
		}
		var adj []callSite
		for _, cs := range c.calls(f, byCallee("State).SetTotalDelegation")) {
			_, a := callArgs(cs.Common())
			r := render(a[0])
			if strings.Contains(r, "."+spec.op+"($r.GetTotalDelegation(),") && strings.Contains(r, ".Delegated())") {
				adj = append(adj, cs)
			}
		}
		if len(adj) != 1 {
			c.violate("C34.activation-total", fnName(f)+" moves the P-Rep's delegation "+map[string]string{"Add": "into", "Sub": "out of"}[spec.op]+" the network total", f.Pos(), fmt.Sprintf("%d SetTotalDelegation(total %s ps.Delegated()) calls: after the status change the total no longer equals the sum of delegations to active P-Reps", len(adj), spec.op))
			continue
		}
		if spec.op == "Add" {
			bad := false
			for _, e := range exitAlts(f) {
				if !isNilConst(e.Results[0]) {
					continue
				}
				if _, by := pathAvoidingEdges(f, f.Blocks[0].Instrs[0], func(in ssa.Instruction) bool { return in == ssa.Instruction(e.Ret) }, func(in ssa.Instruction) bool { return in == ssa.Instruction(adj[0].Instr) },
					wGE("nothing delegated yet", 0, t(-1, `\.Delegated\(\)$`))); by {
					bad = true
				}
			}
			c.check(!bad, "C34.activation-total", fnName(f)+" succeeds only after adding the collected delegation to the total", adj[0].Pos(), "skipped only when nothing is delegated", "a successful registration bypasses the total-delegation update")
		} else {
			c.ok("C34.activation-total", fnName(f)+" subtracts the delegation of a P-Rep that stops being active", adj[0].Pos(), "total − ps.Delegated()")
		}
	}
	// (4) merged unstake slot
	if f := c.mustFn(ics, "Unstakes", "increaseUnstake"); f != nil {
		n := 0
		for _, cs := range c.calls(f, byCallee("icstate.NewUnstake")) {
			_, a := callArgs(cs.Common())
			if _, isParam := a[1].(*ssa.Parameter); isParam {
				continue // a slot of its own with the requested expiry
			}
			for _, fl := range flowsOf(a[1], nil) {
				n++
				if render(fl.Src) == "$1" {
					c.ok("C34.unstake-expiry", "merged slot takes the new expiry", cs.Pos(), guardsString(fl.Guards))
					continue
				}
				c.requireGuard("C34.unstake-expiry", "merged slot keeps its old expiry "+render(fl.Src), cs.Pos(), fl.Guards, wGE("old expiry ≥ new expiry", 0, t(1, "^"+regexp.QuoteMeta(render(fl.Src))+"$"), t(-1, `^\$1$`)))
			}
		}
		if n < 2 {
			c.undecided("C34.unstake-expiry", "increaseUnstake merged slot", f.Pos(), fmt.Sprintf("expected 2 flows into the merged expiry, found %d", n))
		}
	}
	// (6) amounts handed in as *big.Int are borrowed: never the receiver of an in-place operation
	nBorrow := 0
	for _, pk := range []string{ii, ics} {
		for _, f := range c.pkgFuncs(pk) {
			if strings.HasSuffix(c.file(f.Pos()), "_test.go") {
				continue
			}
			for _, cs := range c.calls(f, func(cc *ssa.CallCommon) bool {
				return strings.HasPrefix(calleeName(cc), "(*math/big.Int).") && bigMutators[methodName(cc)]
			}) {
				nBorrow++
				r, _ := callArgs(cs.Common())
				root := r
				for {
					if phi, ok := root.(*ssa.Phi); ok && len(phi.Edges) > 0 {
						// a working variable: borrowed if any incoming value is a parameter
						var par ssa.Value
						for _, e := range phi.Edges {
							if _, ok := e.(*ssa.Parameter); ok {
								par = e
							}
						}
						if par != nil {
							root = par
						}
					}
					break
				}
				p, isParam := root.(*ssa.Parameter)
				if isParam && f.Signature.Recv() != nil && p == f.Params[0] {
					isParam = false // a method of a big.Int-based type working on itself
				}
				if isParam {
					c.violate("C34.borrowed-amounts", fnName(f)+" does not modify an amount it was handed", cs.Pos(), "parameter "+p.Name()+" is the receiver of "+methodName(cs.Common())+": the caller goes on using the value (total stake/delegation updates) and books a different amount than the one applied")
				}
			}
		}
	}
	c.check(nBorrow > 50, "C34.borrowed-amounts", "in-place big.Int operations examined", token.NoPos, fmt.Sprintf("%d sites, none on a parameter", nBorrow), fmt.Sprintf("only %d in-place operations found", nBorrow))
	// (7) SetDelegation: the target's own counter follows every change; only the network total is
	// restricted to active P-Reps (RegisterPRep/DisablePRep move the counter into/out of the total)
	if f := c.mustFn(ii, "ExtensionStateImpl", "SetDelegation"); f != nil {
		n := 0
		for _, cs := range c.calls(f, byMethod("SetDelegated")) {
			n++
			bad := ""
			for _, alt := range altGuards(cs.Instr.Block()) {
				for _, g := range alt {
					if strings.Contains(render(g.Cond), ".IsActive()") {
						bad = g.String()
					}
				}
			}
			c.check(bad == "", "C34.activation-total", "SetDelegation updates the target's delegated amount whether or not it is an active P-Rep", cs.Pos(), "not conditioned on IsActive", "the target's counter is only updated under "+bad+": a delegation made before registration is missing when RegisterPRep adds the counter to the total, and a later withdrawal drives both negative")
			_, a := callArgs(cs.Common())
			x, y, okA := bigBin(a[0], "Add")
			c.check(okA && strings.HasSuffix(render(x), ".Delegated()") && render(y) != "", "C34.activation-total", "the target's counter moves by the delta of this call", cs.Pos(), render(a[0]), "SetDelegated("+render(a[0])+")")
		}
		if n != 1 {
			c.undecided("C34.activation-total", "SetDelegation per-target update", f.Pos(), fmt.Sprintf("expected one SetDelegated call, found %d", n))
		}
		var tot ssa.Value
		for _, cs := range c.calls(f, byCallee("State).SetTotalDelegation")) {
			_, a := callArgs(cs.Common())
			tot = a[0]
		}
		nT := 0
		for _, cs := range c.calls(f, byCallee("(*math/big.Int).Add")) {
			r, a := callArgs(cs.Common())
			if tot == nil || r != tot || a[0] != tot {
				continue
			}
			nT++
			c.requireAt("C34.activation-total", "the network total counts a delta only for an active P-Rep", cs.Instr, wTrue("IsActive()", `\.IsActive\(\)$`))
		}
		if nT == 0 {
			c.undecided("C34.activation-total", "SetDelegation total accumulation", f.Pos(), "nTotal.Add(nTotal, value) not found")
		}
	}
	// (5) clones own their elements
	nCl := 0
	for _, f := range c.pkgFuncs(ics) {
		if f.Name() != "Clone" || f.Signature.Recv() == nil || f.Parent() != nil {
			continue
		}
		rt := f.Signature.Results().At(0).Type()
		sl, ok := rt.Underlying().(*types.Slice)
		if !ok {
			continue
		}
		pt, ok := sl.Elem().(*types.Pointer)
		if !ok {
			continue
		}
		hasClone := false
		ms := c.L.Prog.MethodSets.MethodSet(pt)
		for i := 0; i < ms.Len(); i++ {
			if ms.At(i).Obj().Name() == "Clone" {
				hasClone = true
			}
		}
		if !hasClone {
			continue
		}
		for _, b := range f.Blocks {
			for _, in := range b.Instrs {
				st, ok := in.(*ssa.Store)
				if !ok {
					continue
				}
				ia, ok := st.Addr.(*ssa.IndexAddr)
				if !ok || !types.Identical(st.Val.Type(), pt) {
					continue
				}
				_ = ia
				nCl++
				call, isCall := st.Val.(*ssa.Call)
				c.check(isCall && methodName(call.Common()) == "Clone", "C34.clone-deep", fnName(f)+" copies each element", st.Pos(), "elem.Clone()", "the clone shares its elements with the original ("+render(st.Val)+"): a mutation of the working copy also changes the committed snapshot, so a reverted operation leaves its changes behind")
			}
		}
	}
	if nCl < 4 {
		c.undecided("C34.clone-deep", "element stores in list clones", token.NoPos, fmt.Sprintf("expected ≥4 (Unstakes, Unbonds, Bonds, Delegations), found %d", nCl))
	}
}

func keysOf(m map[string]bool) []string {
	var out []string
	for k := range m {
		out = append(out, k)
	}
	return out
}
