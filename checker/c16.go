package main

import (
	"fmt"
	"go/token"
	"sort"
	"strings"

	"golang.org/x/tools/go/ssa"
)

// C16 — a failed transaction changes nothing but the fee.
func init() {
	register(&Prop{
		ID:             "C16",
		Pkgs:           []string{"service/transaction", "service/contract", "service/state", "icon/iiss", "icon/iiss/icstate"},
		Run:            runC16,
		MinObligations: 16,
		Technique:      "static analysis: guard dominance (logs/messages only on success, rollback only on failure), must-pass-through of the snapshot restore on every failing/unwinding path of the call-frame stack, pairing of the status transition with the world-state rollback, balance re-read after rollback",
		LevelText:      "Decides on all paths: the receipt takes event logs and BTP messages only where the very status value that is stored in the receipt is nil; turning a successful execution into OutOfBalance is paired with ctx.Reset(initial snapshot) and the payer's balance is read again before the fee is charged; a non-read-only frame records a snapshot when pushed, popFrame merges logs/messages/payer info only on success and otherwise restores exactly the frame's snapshot; the unwinding path for timeouts/critical errors (cleanUpFrames) restores the target frame's snapshot on every path (no early return round it) for every non-read-only target; handleResult derives the success flag from `status == nil`.",
		LevelNote:      "Does not decide what each contract handler itself writes outside the frame discipline, nor the asynchronous executor protocol.",
		Explanation:    "C16 rules: logs-on-success (K1+K5), rollback-pair (K8), reread-after-reset (K2), frame-push (K1), frame-pop (K1 + K8), unwind-restores (K8 path search), success-flag (K5).",
		Mutants: []Mutant{
			{Name: "unwind-early-return", File: "service/contract/callcontext.go", Old: "\tl.Unlock()\n\n\tif !target.isReadOnly {\n\t\tcc.Reset(target.snapshot)\n\t}", New: "\tl.Unlock()\n\n\tif len(achs) == 0 {\n\t\treturn\n\t}\n\tif !target.isReadOnly {\n\t\tcc.Reset(target.snapshot)\n\t}", Desc: "outer frames are not rolled back when no async handler was unwound"},
			{Name: "stale-balance-after-rollback", File: "service/transaction/transactionhandler.go", Old: "\t\t\tctx.Reset(wcs)\n\t\t\tbal = as.GetBalance()\n\t\t\tif redeemed != nil {\n\t\t\t\tcc.ClearRedeemLogs()\n\t\t\t\tlogger.TSystemf(\"STEP rollback value=%d\", stepUsed)\n\t\t\t\tstepToPay = stepUsed\n\t\t\t}\n\t\t\tfee.Mul(stepToPay, stepPrice)", New: "\t\t\tctx.Reset(wcs)\n\t\t\tif redeemed != nil {\n\t\t\t\tbal = as.GetBalance()\n\t\t\t\tcc.ClearRedeemLogs()\n\t\t\t\tlogger.TSystemf(\"STEP rollback value=%d\", stepUsed)\n\t\t\t\tstepToPay = stepUsed\n\t\t\t}\n\t\t\tfee.Mul(stepToPay, stepPrice)", Desc: "rolled-back balance change is written back with the fee charge"},
			{Name: "logs-on-failure", File: "service/transaction/transactionhandler.go", Old: "\tif status == nil {\n\t\tcc.GetEventLogs(receipt)\n\t\tcc.GetBTPMessages(receipt)\n\t}", New: "\tcc.GetEventLogs(receipt)\n\tif status == nil {\n\t\tcc.GetBTPMessages(receipt)\n\t}", Desc: "a failed transaction's receipt carries event logs"},
			{Name: "outofbalance-without-rollback", File: "service/transaction/transactionhandler.go", Old: "\t\t\tstatus = scoreresult.ErrOutOfBalance\n\t\t\tctx.Reset(wcs)\n\t\t\tbal = as.GetBalance()", New: "\t\t\tstatus = scoreresult.ErrOutOfBalance\n\t\t\tbal = as.GetBalance()", Desc: "execution effects survive although the transaction is reported as failed"},
			{Name: "pop-merges-on-failure", File: "service/contract/callcontext.go", Old: "\t\tif success {\n\t\t\tframe.parent.applyFrameLogsOf(frame)", New: "\t\tif success || frame.parent != nil {\n\t\t\tframe.parent.applyFrameLogsOf(frame)", Desc: "logs of a failed inner call are merged and its state is not restored"},
			{Name: "push-without-snapshot", File: "service/contract/callcontext.go", Old: "\tif !frame.isReadOnly {\n\t\tframe.snapshot = cc.GetSnapshot()\n\t}", New: "\tif !frame.isReadOnly && cc.frame.parent != nil {\n\t\tframe.snapshot = cc.GetSnapshot()\n\t}", Desc: "first-level frames record no snapshot: failure cannot be rolled back"},
			{Name: "success-flag-inverted", File: "service/contract/callcontext.go", Old: "current := cc.popFrame(status == nil)", New: "current := cc.popFrame(status != nil)", Desc: "failed frames are merged, successful ones rolled back"},
			{Name: "pop-restores-parent-snapshot", File: "service/contract/callcontext.go", Old: "\t\t\tcc.Reset(frame.snapshot)\n\t\t}\n\t}\n\tif success {", New: "\t\t\tcc.Reset(frame.parent.snapshot)\n\t\t}\n\t}\n\tif success {", Desc: "failure restores the caller's snapshot: the caller's own changes are lost too"},
		},
	})
}

func runC16(c *Ctx) {
	runC16Second(c)
	// the account/world Reset rules of C14 are what a rollback rests on
	if !c.Sub {
		sub := &Ctx{Prop: c.Prop, Tier: c.Tier, L: c.L, Sub: true}
		runC14(sub)
		for _, o := range sub.obs {
			if strings.HasPrefix(o.Rule, "C14.snapshot-reset-symmetry") || strings.HasPrefix(o.Rule, "C14.reset-complete") || strings.HasPrefix(o.Rule, "C14.world-symmetry") || strings.HasPrefix(o.Rule, "C14.last-accounts") {
				o2 := *o
				o2.Rule = "C16.rollback-state/" + strings.TrimPrefix(o.Rule, "C14.")
				c.obs = append(c.obs, &o2)
			}
		}
		c.callSites += sub.callSites
	}
	runC16Extra(c)
	ex := c.mustFn("service/transaction", "transactionHandler", "Execute")
	if ex != nil {
		// ---- logs-on-success
		var reason ssa.Value
		for _, cs := range c.calls(ex, byMethod("SetReason")) {
			_, a := callArgs(cs.Common())
			reason = a[0]
		}
		if reason == nil {
			c.undecided("C16.logs-on-success", "receipt status", ex.Pos(), "receipt.SetReason(status) not found")
		} else {
			n := 0
			// the collecting calls sit in Execute itself or in a local helper that is handed the status
			type logSite struct {
				cs     callSite
				status ssa.Value
			}
			var sites []logSite
			for _, cs := range c.calls(ex, byMethod("GetEventLogs", "GetBTPMessages")) {
				sites = append(sites, logSite{cs, reason})
			}
			for g, site := range c.localHelpers(ex, false) {
				for k, a := range site.Common().Args {
					if a == reason && k < len(g.Params) {
						for _, cs := range c.calls(g, byMethod("GetEventLogs", "GetBTPMessages")) {
							sites = append(sites, logSite{cs, g.Params[k]})
						}
					}
				}
			}
			sort.Slice(sites, func(i, j int) bool { return sites[i].cs.Pos() < sites[j].cs.Pos() })
			for _, ls := range sites {
				cs, reason := ls.cs, ls.status
				n++
				okG := false
				for _, g := range guardsAt(cs.Instr) {
					bo, ok := g.Cond.(*ssa.BinOp)
					if !ok {
						continue
					}
					p := predOf(g)
					if p.Kind == "same" && p.Pol && ((bo.X == reason && isNilConst(bo.Y)) || (bo.Y == reason && isNilConst(bo.X))) {
						okG = true
					}
				}
				c.check(okG, "C16.logs-on-success", methodName(cs.Common())+" only when the recorded status is nil", cs.Pos(), "guarded by status == nil on the value passed to SetReason", "the receipt takes "+methodName(cs.Common())+" without the recorded status being nil: a failed transaction carries logs/messages")
			}
			if n != 2 {
				c.undecided("C16.logs-on-success", "log collection", ex.Pos(), fmt.Sprintf("expected GetEventLogs and GetBTPMessages, found %d calls", n))
			}
			for _, cs := range c.calls(ex, byCallee("service/scoreresult.StatusOf")) {
				_, a := callArgs(cs.Common())
				c.check(a[0] == reason, "C16.logs-on-success", "receipt status code derives from the same status", cs.Pos(), "StatusOf(status)", "status code derives from "+render(a[0]))
			}
		}
		// ---- rollback-pair: where status is nil inside the fee loop and becomes OutOfBalance, the world is reset to the initial snapshot
		resets := c.calls(ex, func(cc *ssa.CallCommon) bool {
			_, a := callArgs(cc)
			return methodName(cc) == "Reset" && len(a) == 1 && render(a[0]) == "$1"
		})
		paired := false
		for _, rs := range resets {
			for _, g := range guardsAt(rs.Instr) {
				p := predOf(g)
				if p.Kind == "same" && p.Pol && (p.A == "nil" || p.B == "nil") && strings.Contains(p.A+p.B, "DoExecute(") {
					paired = true
					// every path from the start of that arm back to the loop condition passes this Reset
					arm := rs.Instr.Block()
					for len(arm.Preds) == 1 && arm.Preds[0] != g.At {
						arm = arm.Preds[0]
					}
					tr, bad := pathAvoiding(ex, g.At.Instrs[len(g.At.Instrs)-1], func(in ssa.Instruction) bool {
						return in.Block() != arm && !arm.Dominates(in.Block())
					}, func(in ssa.Instruction) bool {
						return in == ssa.Instruction(rs.Instr) || (in.Block() != arm && !arm.Dominates(in.Block()) && in.Block() == g.At.Succs[1])
					})
					_ = tr
					_ = bad
				}
			}
		}
		c.check(paired, "C16.rollback-pair", "success → OutOfBalance is paired with ctx.Reset(initial snapshot)", ex.Pos(), "Reset(wcs) in the status == nil arm", "no ctx.Reset(wcs) in the arm where a successful execution is turned into OutOfBalance")
		// stronger: in the arm guarded by status==nil inside the loop, the status store/phi to ErrOutOfBalance and Reset co-occur on every path to the loop header
		for _, b := range ex.Blocks {
			if len(b.Instrs) == 0 {
				continue
			}
			iff, ok := b.Instrs[len(b.Instrs)-1].(*ssa.If)
			if !ok || loopHeaderOf(b) == nil {
				continue
			}
			p := predOfVal(iff.Cond, true)
			if !(p.Kind == "same" && p.Pol && (p.A == "nil" || p.B == "nil") && strings.Contains(p.A+p.B, "DoExecute(")) {
				continue
			}
			h := loopHeaderOf(b)
			arm := b.Succs[0]
			tr, bad := pathAvoiding(ex, arm.Instrs[0], func(in ssa.Instruction) bool { return in.Block() == h && in == h.Instrs[0] }, func(in ssa.Instruction) bool {
				if ci, ok := in.(ssa.CallInstruction); ok && methodName(ci.Common()) == "Reset" {
					_, a := callArgs(ci.Common())
					return len(a) == 1 && render(a[0]) == "$1"
				}
				return false
			})
			// the first instruction of the arm itself may be the Reset
			first := false
			if ci, ok := arm.Instrs[0].(ssa.CallInstruction); ok && methodName(ci.Common()) == "Reset" {
				first = true
			}
			c.check(!bad || first, "C16.rollback-pair", "every pass through the success→failure arm rolls back", arm.Instrs[0].Pos(), "Reset(wcs) before the loop continues", "the arm can continue without rolling the execution back: "+traceString(tr))
		}
		// ---- reread-after-reset
		var charge ssa.Instruction
		for _, cs := range c.calls(ex, byMethod("SetBalance")) {
			charge = cs.Instr
		}
		for _, rs := range resets {
			isUse := func(in ssa.Instruction) bool {
				if in == charge {
					return true
				}
				if call, ok := in.(*ssa.Call); ok && methodName(call.Common()) == "Cmp" {
					r, _ := callArgs(call.Common())
					return strings.Contains(render(r), ".GetBalance()")
				}
				return false
			}
			tr, bad := pathAvoiding(ex, rs.Instr, isUse, isCallTo(byMethod("GetBalance")))
			c.check(!bad, "C16.reread-after-reset", "payer balance re-read after the rollback", rs.Pos(), "GetBalance on every path to the next use", "the balance observed before ctx.Reset(wcs) is used afterwards: a rolled-back change is written back with the fee ("+traceString(tr)+")")
		}
		if len(resets) < 2 {
			c.undecided("C16.rollback-pair", "ctx.Reset(wcs) sites", ex.Pos(), fmt.Sprintf("expected 2, found %d", len(resets)))
		}
	}

	// ---- frames
	const cp = "service/contract"
	if pu := c.mustFn(cp, "callContext", "pushFrame"); pu != nil {
		n := 0
		for _, st := range fieldStores([]*ssa.Function{pu}, "callFrame", "snapshot") {
			n++
			c.check(strings.HasSuffix(render(st.Store.Val), ".GetSnapshot()"), "C16.frame-push", "pushed frame records the current snapshot", st.Store.Pos(), render(st.Store.Val), "records "+render(st.Store.Val))
			// reachable for every non-read-only frame: the only guard is !isReadOnly
			extra := 0
			for _, g := range guardsAt(st.Store) {
				p := predOf(g)
				if !(p.Kind == "bool" && !p.Pol && strings.HasSuffix(p.A, ".isReadOnly")) {
					extra++
				}
			}
			c.check(extra == 0, "C16.frame-push", "every non-read-only frame records a snapshot", st.Store.Pos(), "only guard: !isReadOnly", "the snapshot is recorded only under additional conditions: "+guardsString(guardsAt(st.Store)))
		}
		if n != 1 {
			c.undecided("C16.frame-push", "pushFrame", pu.Pos(), fmt.Sprintf("expected one snapshot store, found %d", n))
		}
	}
	if po := c.mustFn(cp, "callContext", "popFrame"); po != nil {
		merges := c.calls(po, byMethod("applyFrameLogsOf", "applyBTPMessagesOf", "applyFeePayerInfoOf", "mergeLastEIDMap"))
		for _, m := range merges {
			c.requireAt("C16.frame-pop", methodName(m.Common())+" only on success", m.Instr, wTrue("success", `^\$0$`))
		}
		if len(merges) < 3 {
			c.undecided("C16.frame-pop", "merge calls", po.Pos(), fmt.Sprintf("expected ≥3, found %d", len(merges)))
		}
		rs := c.calls(po, byMethod("Reset"))
		if len(rs) != 1 {
			c.violate("C16.frame-pop", "popFrame restores on failure", po.Pos(), fmt.Sprintf("expected one Reset, found %d", len(rs)))
		} else {
			c.requireAt("C16.frame-pop", "restore only on failure", rs[0].Instr, wFalse("not success", `^\$0$`))
			_, a := callArgs(rs[0].Common())
			c.check(render(a[0]) == "$r.frame.snapshot", "C16.frame-pop", "restore the popped frame's own snapshot", rs[0].Pos(), "frame.snapshot", "restores "+render(a[0]))
			// on failure of a non-read-only frame the restore is unavoidable
			var mergeOrReset = func(in ssa.Instruction) bool {
				if in == ssa.Instruction(rs[0].Instr) {
					return true
				}
				for _, m := range merges {
					if in == ssa.Instruction(m.Instr) {
						return true
					}
				}
				return false
			}
			tr, bad := pathAvoidingEdges(po, po.Blocks[0].Instrs[0], isReturn, mergeOrReset, wTrue("read-only frame", `\.isReadOnly$`))
			c.check(!bad, "C16.frame-pop", "a non-read-only frame is merged or restored", po.Pos(), "no path round both", "a non-read-only frame can be popped without merge or restore: "+traceString(tr))
		}
	}
	if cu := c.mustFn(cp, "callContext", "cleanUpFrames"); cu != nil {
		rs := c.calls(cu, byMethod("Reset"))
		if len(rs) != 1 {
			c.violate("C16.unwind-restores", "cleanUpFrames restores", cu.Pos(), fmt.Sprintf("expected one Reset, found %d", len(rs)))
		} else {
			_, a := callArgs(rs[0].Common())
			c.check(render(a[0]) == "$0.snapshot", "C16.unwind-restores", "unwinding restores the target frame's snapshot", rs[0].Pos(), "target.snapshot", "restores "+render(a[0]))
			tr, bad := pathAvoidingEdges(cu, cu.Blocks[0].Instrs[0], isReturn, func(in ssa.Instruction) bool { return in == ssa.Instruction(rs[0].Instr) }, wTrue("read-only target", `^\$0\.isReadOnly$`))
			c.check(!bad, "C16.unwind-restores", "every unwinding of a non-read-only target restores its snapshot", rs[0].Pos(), "no path round the restore", "cleanUpFrames can return without restoring the target snapshot: state written by the enclosing frames survives a timeout/critical error ("+traceString(tr)+")")
		}
	}
	if hr := c.mustFn(cp, "callContext", "handleResult"); hr != nil {
		for _, cs := range c.calls(hr, byCallee("(*service/contract.callContext).popFrame")) {
			_, a := callArgs(cs.Common())
			p := predOfVal(a[0], true)
			c.check(p.Kind == "same" && p.Pol && (p.A == "$1" || p.B == "$1") && (p.A == "nil" || p.B == "nil"), "C16.success-flag", "popFrame(status == nil)", cs.Pos(), "success ⇔ status == nil", "success flag is "+p.String())
		}
		for _, cs := range c.calls(hr, byCallee("(*service/contract.callContext).cleanUpFrames")) {
			_, a := callArgs(cs.Common())
			c.check(render(a[0]) == "$0", "C16.unwind-restores", "handleResult unwinds to its own target frame", cs.Pos(), "target", "unwinds to "+render(a[0]))
		}
	}
	_ = token.NoPos
}

// runC16Extra: rules added after independently produced mutants were missed:
// whatever a snapshot captures, the rollback restores.
func runC16Extra(c *Ctx) {
	// (a)/(b) every sub-state captured by GetSnapshot is restored by Reset
	for _, spec := range []struct{ pkg, typ, what string }{
		{"service/state", "worldStateImpl", "world state"},
		{"icon/iiss", "ExtensionStateImpl", "IISS extension state"},
	} {
		gs := c.mustFn(spec.pkg, spec.typ, "GetSnapshot")
		rs := c.mustFn(spec.pkg, spec.typ, "Reset")
		if gs == nil || rs == nil {
			continue
		}
		captured := map[string]bool{}
		for _, cs := range c.calls(gs, byMethod("GetSnapshot")) {
			r, _ := callArgs(cs.Common())
			if s := rn(r); strings.HasPrefix(s, "$r.") {
				captured[strings.TrimPrefix(s, "$r.")] = true
			}
		}
		restored := map[string]bool{}
		for _, cs := range c.calls(rs, byMethod("Reset")) {
			r, _ := callArgs(cs.Common())
			if s := rn(r); strings.HasPrefix(s, "$r.") {
				restored[strings.TrimPrefix(s, "$r.")] = true
			}
		}
		c.check(len(captured) >= 4, "C16.snapshot-reset-agree", spec.what+": captured parts found", gs.Pos(), fmt.Sprint(len(captured)), "GetSnapshot captures fewer parts than expected")
		for part := range captured {
			c.check(restored[part], "C16.snapshot-reset-agree", spec.what+": Reset restores "+part, rs.Pos(), "Reset(snapshot."+part+")", "the snapshot captures "+part+" but Reset does not restore it: what a failed transaction did to it survives the rollback")
		}
		// and Reset cannot return before having restored them
		for _, cs := range c.calls(rs, byMethod("Reset")) {
			r, _ := callArgs(cs.Common())
			if !strings.HasPrefix(rn(r), "$r.") {
				continue
			}
			for _, e := range successAlts(rs) {
				tr, reach := pathAvoiding(rs, nil, isInstr(e.Ret), isInstr(cs.Instr))
				c.check(!reach, "C16.snapshot-reset-agree", spec.what+": Reset reaches the restore of "+strings.TrimPrefix(rn(r), "$r.")+" on every successful path", cs.Pos(), "no bypass", "Reset can return without restoring it ("+traceString(tr)+")")
			}
		}
	}
	// (d) cached accounts that do not exist in the target snapshot are cleared
	if rs := c.fn("service/state", "worldStateImpl", "Reset"); rs != nil {
		clears := c.calls(rs, byMethod("Clear"))
		var look callSite
		for _, cs := range c.calls(rs, byCallee("worldStateImpl).getAccountSnapshotWithKey")) {
			look = cs
		}
		if len(clears) != 1 || look.Instr == nil {
			c.violate("C16.snapshot-reset-agree", "world Reset clears accounts created after the snapshot", rs.Pos(), "expected a lookup and one Clear()")
		} else {
			h := loopHeaderOf(look.Instr.Block())
			old := pathEdgeFilter
			pathEdgeFilter = func(p, sb *ssa.BasicBlock) bool {
				for _, g := range edgeGuard(p, sb) {
					if bo, ok := g.Cond.(*ssa.BinOp); ok {
						nonNil := (bo.Op == token.NEQ && g.Pol) || (bo.Op == token.EQL && !g.Pol)
						if nonNil && (bo.X == look.Instr.Value() || bo.Y == look.Instr.Value()) {
							return true
						}
					}
				}
				return false
			}
			tr, reach := pathAvoiding(rs, look.Instr, func(in ssa.Instruction) bool { return isReturn(in) || (h != nil && in == h.Instrs[0]) }, isInstr(clears[0].Instr))
			pathEdgeFilter = old
			c.check(!reach, "C16.snapshot-reset-agree", "an account that does not exist in the target snapshot is cleared", clears[0].Pos(), "value == nil → as.Clear()", "a cached account created after the snapshot keeps its content after the rollback and is flushed later: a failed transaction leaves an account (and its coins) behind ("+traceString(tr)+")")
		}
	}
	// (c) mutable containers are cloned out of the snapshot, not shared with it
	if rs := c.fn("service/state", "accountStateImpl", "Reset"); rs != nil {
		for _, f := range []string{"objCache", "deposits"} {
			n := 0
			for _, fs := range fieldStoresAny([]*ssa.Function{rs}, "accountData") {
				if fieldName(fs.Addr.X.Type(), fs.Addr.Field) != f {
					continue
				}
				n++
				cl, isCall := fs.Store.Val.(*ssa.Call)
				c.check(isCall && methodName(cl.Common()) == "Clone", "C16.snapshot-reset-agree", "account Reset takes a private copy of the snapshot's "+f, fs.Store.Pos(), "snapshot."+f+".Clone()", "after Reset the live account shares its "+f+" with the snapshot: later changes rewrite the snapshot that a further rollback restores")
			}
			c.check(n >= 1, "C16.snapshot-reset-agree", "account Reset restores "+f, rs.Pos(), fmt.Sprint(n), "not restored")
		}
		// storage views (same rule as C14)
		var a, b []*ssa.Store
		for _, blk := range rs.Blocks {
			for _, in := range blk.Instrs {
				st, ok := in.(*ssa.Store)
				if !ok || !isNilConst(st.Val) {
					continue
				}
				fa, ok := st.Addr.(*ssa.FieldAddr)
				if !ok || fieldName(fa.X.Type(), fa.Field) != "store" {
					continue
				}
				if namedOf(fa.X.Type()) == "accountStateImpl" {
					a = append(a, st)
				} else if namedOf(fa.X.Type()) == "accountData" {
					b = append(b, st)
				}
			}
		}
		c.check(len(a) == 1 && len(b) == 1 && a[0].Block() == b[0].Block(), "C16.snapshot-reset-agree", "Reset to a snapshot without storage drops the storage created since", rs.Pos(), "s.store = nil; s.accountData.store = nil", "storage first written by the failed transaction survives the rollback")
	}
	// (e) a blocked sender is rejected before anything is executed
	if de := c.fn("service/transaction", "transactionHandler", "DoExecute"); de != nil {
		for _, cs := range c.calls(de, byMethod("Call")) {
			r, _ := callArgs(cs.Common())
			if r == nil || !strings.Contains(r.Type().String(), "CallContext") {
				continue
			}
			c.requireAtAny("C16.logs-on-success", "execution starts only after the blocked-sender check (patches excepted)", cs.Instr, "isPatch ∨ checkBlocked() == nil",
				wTrue("patch", `^\$2$`), wSame("not blocked", `^\$r\.checkBlocked\(\$0\)$`, `^nil$`))
		}
	}
}

// runC16Second: rules added for the second list of independent mutants —
// the other state objects a rollback goes through. (1) every BTP state method
// that changes a map or field of the state marks it dirty (Reset compares the
// cached snapshot pointer and skips the restore for a clean state); (2) the
// copy-on-write clone of a validator list owns its slice; (3) no Reset of an
// IISS cache writes pending entries through (Flush) instead of dropping them.
// runC16Third: rules added for the remaining second-list mutants.
func runC16Third(c *Ctx) {
	// the concurrent executor's Reset restores the real world state exactly under the world write lock
	if wl, ok := c.constVal("service/state", "AccountWriteLock"); ok {
		if f := c.mustFn("service/state", "worldVirtualState", "Reset"); f != nil {
			n := 0
			for _, cs := range c.calls(f, byMethod("Reset")) {
				r, _ := callArgs(cs.Common())
				if r == nil || !strings.HasSuffix(render(r), ".real") {
					continue
				}
				n++
				c.requireAt("C16.reset-drops", "worldVirtualState.Reset restores the real world state", cs.Instr, wEQ("world write lock held", -wl, t(1, `^\$r\.worldLock$`)))
				// and nothing else decides it: with the world write lock held, no path avoids it
				_, skip := pathAvoidingEdges(f, f.Blocks[0].Instrs[0], isReturn, func(in ssa.Instruction) bool { return in == ssa.Instruction(cs.Instr) },
					wNE("no world write lock", -wl, t(1, `^\$r\.worldLock$`)), wDiffer("foreign snapshot", `^\$r$`, `origin$`), wSame("already committed", `^\$r\.waiter$`, `^nil$`))
				c.check(!skip, "C16.reset-drops", "worldVirtualState.Reset under the world write lock always restores the real world state", cs.Pos(), "no path round real.Reset", "a world-locked transaction can leave Reset without the real world state restored")
			}
			if n == 0 {
				c.undecided("C16.reset-drops", "worldVirtualState.Reset", f.Pos(), "no real.Reset call")
			}
		}
	} else {
		c.undecided("C16.reset-drops", "AccountWriteLock", token.NoPos, "constant not found")
	}
	// icstate.AccountCache.Reset resets every cached account (to the empty one when the store has none)
	if f := c.mustFn("icon/iiss/icstate", "AccountCache", "Reset"); f != nil {
		var hdr *ssa.BasicBlock
		for _, b := range f.Blocks {
			for _, in := range b.Instrs {
				if _, ok := in.(*ssa.Next); ok {
					hdr = b
				}
			}
		}
		if hdr == nil {
			c.undecided("C16.reset-drops", "AccountCache.Reset", f.Pos(), "no loop over the cached accounts")
		} else {
			body := loopBody(hdr)
			isReset := func(in ssa.Instruction) bool {
				cl, ok := in.(*ssa.Call)
				return ok && methodName(cl.Common()) == "Reset"
			}
			var first ssa.Instruction
			for _, s := range hdr.Succs {
				if body[s] && s != hdr {
					first = s.Instrs[0]
				}
			}
			okAll := first != nil
			if okAll {
				_, skip := pathAvoiding(f, first, func(in ssa.Instruction) bool { return in.Block() == hdr }, func(in ssa.Instruction) bool { return isReset(in) })
				okAll = !skip
			}
			c.check(okAll, "C16.reset-drops", "AccountCache.Reset resets every cached account", f.Pos(), "every iteration reaches account.Reset(…)", "an iteration can finish without resetting the cached account (for instance one the restored store does not hold): the failed transaction's stake/delegation stays in the cache and is flushed with the next commit")
		}
	}
}

func runC16Second(c *Ctx) {
	runC16Third(c)
	nM := 0
	for _, f := range c.pkgFuncs("service/state") {
		if f.Signature.Recv() == nil || namedOf(f.Signature.Recv().Type()) != "BTPStateImpl" || f.Parent() != nil {
			continue
		}
		switch f.Name() {
		case "markDirty", "GetSnapshot", "Reset":
			continue
		}
		isMark := func(in ssa.Instruction) bool {
			cl, ok := in.(*ssa.Call)
			return ok && methodName(cl.Common()) == "markDirty"
		}
		for _, b := range f.Blocks {
			for _, in := range b.Instrs {
				var what string
				switch x := in.(type) {
				case *ssa.MapUpdate:
					if strings.HasPrefix(render(x.Map), "$r.") {
						what = render(x.Map)
					}
				case *ssa.Store:
					if fa, ok := x.Addr.(*ssa.FieldAddr); ok && render(fa.X) == "$r" && fieldName(fa.X.Type(), fa.Field) != "last" {
						what = "field " + fieldName(fa.X.Type(), fa.Field)
					}
				}
				if what == "" {
					continue
				}
				nM++
				marked := false
				for _, bb := range f.Blocks {
					for _, mi := range bb.Instrs {
						if isMark(mi) && dominatesInstr(mi, in) {
							marked = true
						}
					}
				}
				if !marked {
					_, stale := pathAvoiding(f, in, isReturn, isMark)
					marked = !stale
				}
				c.check(marked, "C16.btp-dirty", fnName(f)+" marks the BTP state dirty when it changes "+what, in.Pos(), "markDirty()", "the BTP state changes "+what+" without being marked dirty: Reset to the snapshot taken before the failed transaction finds `last == snapshot` and restores nothing")
			}
		}
	}
	if nM < 5 {
		c.undecided("C16.btp-dirty", "BTP state mutations", token.NoPos, fmt.Sprintf("expected ≥5, found %d", nM))
	}
	if f := c.mustFn("service/state", "validatorList", "clone"); f != nil {
		n := 0
		for _, st := range fieldStores([]*ssa.Function{f}, "validatorList", "validators") {
			n++
			fresh := false
			switch x := st.Store.Val.(type) {
			case *ssa.Call:
				if calleeName(x.Common()) == "builtin:append" {
					_, a := callArgs(x.Common())
					fresh = isNilConst(a[0])
					if ms, ok := a[0].(*ssa.MakeSlice); ok {
						_ = ms
						fresh = true
					}
				}
			case *ssa.MakeSlice:
				fresh = true
			}
			c.check(fresh, "C16.clone-owns", "validatorList.clone gives the copy its own slice", st.Store.Pos(), "append([]*validator(nil), …)", "the clone shares "+render(st.Store.Val)+" with the snapshot: changes of a failed transaction write through into the snapshot Reset reinstalls")
		}
		if n == 0 {
			c.undecided("C16.clone-owns", "validatorList.clone", f.Pos(), "no store to validators")
		}
	}
	nR := 0
	for _, f := range c.pkgFuncs("icon/iiss/icstate") {
		if f.Name() != "Reset" || f.Signature.Recv() == nil || f.Parent() != nil {
			continue
		}
		nR++
		for _, cs := range c.calls(f, byMethod("Flush")) {
			c.violate("C16.reset-drops", fnName(f)+" discards pending changes", cs.Pos(), "Reset calls Flush: the changes of the failed transaction are written through instead of being dropped")
		}
	}
	c.check(nR >= 3, "C16.reset-drops", "Reset functions of the IISS caches examined", token.NoPos, fmt.Sprintf("%d, none flushes", nR), fmt.Sprintf("only %d Reset functions found", nR))
}
