package main

import (
	"fmt"
	"go/constant"
	"go/token"
	"go/types"
	"strings"

	"golang.org/x/tools/go/ssa"
)

// C02 — a correct validator never equivocates, even across crashes.
func init() {
	register(&Prop{
		ID:             "C02",
		Pkgs:           []string{"consensus"},
		Run:            runC02,
		MinObligations: 30,
		Technique:      "static analysis: value identity + dominance order (sign → marshal → WAL write → WAL sync → send of the same bytes), who-may-sign/who-may-send, order of restore vs. act in Start, restart dispatch table (restored step vs. step entered), shape of the (round, step) restoration predicate",
		LevelText:      "Decides on all paths of package consensus: every network send of an own vote or proposal sends the very byte slice that was marshalled from the signed message, written to the round WAL and synced, in that order, and only if write and sync returned nil; only the two send functions sign with the node wallet and send votes/proposals; Start restores the WALs before it opens them for writing, marks the engine started or enters any step, and fails if restoration fails; the restart dispatch never re-enters a step that is not strictly later than the restored one; WAL replay re-adds own votes to the vote sets and raises the restored (round, step) for an own message whenever its round is higher (unconditionally on the step) or equal with a step not lower, to exactly the step of that message kind.",
		LevelNote:      "Torn-record handling is C03; that the restored lock equals the pre-crash lock and Tendermint's own safety argument are not decided. Heap fields in guards are assumed stable between guard and site.",
		Explanation:    "C02 rules: wal-before-send (K2 order + K5 same-value + K1 error guards), who-signs / who-sends (K3), wal-writer (K5 pass-through of WalMessageWriter), restore-before-act (K2 in Start), restart-dispatch (K1 + table of enter* target steps), replay-records-own and replay-raises-step (K1/K5 on the phi structure of applyRoundWAL).",
		Mutants: []Mutant{
			{Name: "F11-send-despite-wal-error", File: "consensus/consensus.go", Old: "\t\tcs.log.Errorf(\"fail to sync WAL: sendVote: %+v\\n\", err)\n\t\treturn err\n", New: "\t\tcs.log.Errorf(\"fail to sync WAL: sendVote: %+v\\n\", err)\n", Desc: "regression of F11"},
			{Name: "sync-after-send", File: "consensus/consensus.go", Old: "\tif err := cs.roundWAL.Sync(); err != nil {\n\t\tcs.log.Errorf(\"fail to sync WAL: sendProposal: %+v\\n\", err)\n\t\treturn err\n\t}\n\tcs.log.Debugf(\"sendProposal %v\\n\", msg)\n\terr = cs.ph.Broadcast(ProtoProposal, msgBS, module.BroadcastAll)\n\tif err != nil {\n\t\tcs.log.Warnf(\"sendProposal: %+v\\n\", err)\n\t\treturn err\n\t}\n", New: "\tcs.log.Debugf(\"sendProposal %v\\n\", msg)\n\terr = cs.ph.Broadcast(ProtoProposal, msgBS, module.BroadcastAll)\n\tif err != nil {\n\t\tcs.log.Warnf(\"sendProposal: %+v\\n\", err)\n\t\treturn err\n\t}\n\tif err := cs.roundWAL.Sync(); err != nil {\n\t\tcs.log.Errorf(\"fail to sync WAL: sendProposal: %+v\\n\", err)\n\t\treturn err\n\t}\n", Desc: "proposal broadcast before the WAL is synced"},
			{Name: "send-remarshalled", File: "consensus/consensus.go", Old: "\t\terr = cs.ph.Broadcast(ProtoVote, msgBS, module.BroadcastAll)", New: "\t\terr = cs.ph.Broadcast(ProtoVote, msgCodec.MustMarshalToBytes(msg), module.BroadcastAll)", Desc: "sends a re-marshalled copy, not the logged bytes"},
			{Name: "wal-wrong-log", File: "consensus/consensus.go", Old: "\tif err := cs.roundWAL.WriteMessageBytes(msg.subprotocol(), msgBS); err != nil {\n\t\tcs.log.Errorf(\"fail to write WAL: sendVote", New: "\tif err := cs.lockWAL.WriteMessageBytes(msg.subprotocol(), msgBS); err != nil {\n\t\tcs.log.Errorf(\"fail to write WAL: sendVote", Desc: "own vote logged to the lock WAL, which round restoration does not read"},
			{Name: "restart-reenters-prevote", File: "consensus/consensus.go", Old: "\t} else if cs.step == stepPrevote {\n\t\tprevotes := cs.hvs.votesFor(cs.round, VoteTypePrevote)\n\t\tif prevotes.hasOverTwoThirds() {\n\t\t\tcs.enterPrevoteWait()\n\t\t}", New: "\t} else if cs.step == stepPrevote {\n\t\tprevotes := cs.hvs.votesFor(cs.round, VoteTypePrevote)\n\t\tif prevotes.hasOverTwoThirds() {\n\t\t\tcs.enterPrevoteWait()\n\t\t} else {\n\t\t\tcs.enterPrevote()\n\t\t}", Desc: "restart with a logged prevote re-enters the prevote step"},
			{Name: "open-wal-before-restore", File: "consensus/consensus.go", Old: "\tif err := cs.applyWAL(validators); err != nil {\n\t\treturn err\n\t}\n\tif err := cs.applyGenesis(validators); err != nil {", New: "\tif err := cs.applyWAL(validators); err != nil {\n\t\tcs.log.Warnf(\"ignoring WAL: %+v\", err)\n\t}\n\tif err := cs.applyGenesis(validators); err != nil {", Desc: "WAL restoration failure ignored, node starts from scratch"},
			{Name: "replay-proposal-needs-early-step", File: "consensus/consensus.go", Old: "if round < m.round() || (round == m.round() && rstep <= stepPropose) {", New: "if round <= m.round() && rstep <= stepPropose {", Desc: "own proposal of a later round ignored when an earlier round was past propose"},
			{Name: "replay-own-vote-not-added", File: "consensus/consensus.go", Old: "\t\t\t_, _ = cs.hvs.add(index, m)\n\t\t\tvar mstep step\n\t\t\tif m.Type == VoteTypePrevote {", New: "\t\t\tvar mstep step\n\t\t\tif m.Type == VoteTypePrevote {", Desc: "own logged vote not restored into the vote sets"},
			{Name: "replay-vote-step-swapped", File: "consensus/consensus.go", Old: "\t\t\tif m.Type == VoteTypePrevote {\n\t\t\t\tmstep = stepPrevote\n\t\t\t} else {\n\t\t\t\tmstep = stepPrecommit\n\t\t\t}\n\t\t\tif round < m.round() || (round == m.round() && rstep <= mstep) {", New: "\t\t\tif m.Type == VoteTypePrevote {\n\t\t\t\tmstep = stepPropose\n\t\t\t} else {\n\t\t\t\tmstep = stepPrecommit\n\t\t\t}\n\t\t\tif round < m.round() || (round == m.round() && rstep <= mstep) {", Desc: "a logged prevote restores only the propose step: the node prevotes again"},
			{Name: "unsigned-marshal", File: "consensus/consensus.go", Old: "\terr := msg.Sign(cs.c.Wallet())\n\tif err != nil {\n\t\treturn err\n\t}\n\tmsgBS, err := msgCodec.MarshalToBytes(msg)\n\tif err != nil {\n\t\treturn err\n\t}\n\tif err := cs.roundWAL.WriteMessageBytes(msg.subprotocol(), msgBS); err != nil {\n\t\tcs.log.Errorf(\"fail to write WAL: sendProposal", New: "\tmsgBS, err := msgCodec.MarshalToBytes(msg)\n\tif err != nil {\n\t\treturn err\n\t}\n\terr = msg.Sign(cs.c.Wallet())\n\tif err != nil {\n\t\treturn err\n\t}\n\tif err := cs.roundWAL.WriteMessageBytes(msg.subprotocol(), msgBS); err != nil {\n\t\tcs.log.Errorf(\"fail to write WAL: sendProposal", Desc: "bytes marshalled before signing: WAL holds an unsigned proposal that replay cannot attribute"},
		},
	})
}

func (c *Ctx) constVal(pkgRel, name string) (int64, bool) {
	o := c.pkg(pkgRel).Types.Scope().Lookup(name)
	k, ok := o.(*types.Const)
	if !ok {
		return 0, false
	}
	v, exact := constant.Int64Val(constant.ToInt(k.Val()))
	return v, exact
}

func runC02(c *Ctx) {
	const pkg = "consensus"
	pf := c.pkgFuncs(pkg)
	protoVote, ok1 := c.constVal(pkg, "ProtoVote")
	protoProposal, ok2 := c.constVal(pkg, "ProtoProposal")
	if !ok1 || !ok2 {
		c.undecided("anchor", "ProtoVote/ProtoProposal", token.NoPos, "protocol constants not found")
		return
	}

	// ---- wal-before-send
	senders := map[string]bool{}
	nSend := 0
	for _, f := range pf {
		if strings.HasSuffix(c.file(f.Pos()), "_test.go") {
			continue
		}
		for _, cs := range c.calls(f, byCallee("iface:module.ProtocolHandler.Broadcast", "iface:module.ProtocolHandler.Multicast", "iface:module.ProtocolHandler.Unicast")) {
			_, a := callArgs(cs.Common())
			p, isK := constInt(a[0])
			if !isK {
				// a relay of messages already held in the vote sets (the syncer): it must not create or sign messages
				if len(c.calls(f, byCallee("(*consensus.signedBase).Sign"))) == 0 {
					c.okTrivial("C02.wal-before-send", "relay send in "+fnName(f), cs.Pos(), "forwards stored messages, signs nothing")
				} else {
					c.undecided("C02.wal-before-send", "send in "+fnName(f), cs.Pos(), "protocol argument is not constant in a function that signs")
				}
				continue
			}
			if p != protoVote && p != protoProposal {
				continue
			}
			nSend++
			kind := "vote"
			if p == protoProposal {
				kind = "proposal"
			}
			name := fmt.Sprintf("%s send (%s) in %s", kind, methodName(cs.Common()), fnName(f))
			senders[f.Name()] = true
			bytesV := a[1]
			// the WAL write of the same value
			var w, s callSite
			for _, wc := range c.calls(f, byCallee("(*consensus.WalMessageWriter).WriteMessageBytes")) {
				_, wa := callArgs(wc.Common())
				if wa[1] == bytesV {
					w = wc
				}
			}
			if w.Instr == nil {
				c.violate("C02.wal-before-send", name, cs.Pos(), "the bytes sent ("+render(bytesV)+") are not the bytes written to the round WAL")
				continue
			}
			wr, wa := callArgs(w.Common())
			c.check(render(wr) == "$r.roundWAL", "C02.wal-before-send", name+": logged to the round WAL", w.Pos(), "cs.roundWAL", "logged to "+render(wr)+", which round restoration does not replay")
			for _, sc := range c.calls(f, byMethod("Sync")) {
				sr, _ := callArgs(sc.Common())
				if render(sr) == "$r.roundWAL.WALWriter" || render(sr) == "$r.roundWAL" {
					if dominatesInstr(w.Instr, sc.Instr) && dominatesInstr(sc.Instr, cs.Instr) {
						s = sc
					}
				}
			}
			c.check(dominatesInstr(w.Instr, cs.Instr), "C02.wal-before-send", name+": write precedes send", cs.Pos(), "WAL write dominates the send", "the send is reachable without the WAL write")
			c.check(s.Instr != nil, "C02.wal-before-send", name+": write → sync → send", cs.Pos(), "a round WAL Sync lies between the write and the send on every path", "no round WAL Sync between the WAL write and the send")
			c.requireAt("C02.wal-before-send", name, cs.Instr, wSame("WAL write succeeded", `^\$r\.roundWAL\.WriteMessageBytes\(`, `^nil$`))
			c.requireAt("C02.wal-before-send", name, cs.Instr, wSame("WAL sync succeeded", `^\$r\.roundWAL\.[A-Za-z.]*Sync\(\)$`, `^nil$`))
			// bytes = MarshalToBytes(msg)#0 of the message that was signed before marshalling
			ex, isEx := bytesV.(*ssa.Extract)
			var mcall *ssa.Call
			if isEx && ex.Index == 0 {
				mcall, _ = ex.Tuple.(*ssa.Call)
			}
			if mcall == nil || methodName(mcall.Common()) != "MarshalToBytes" {
				c.violate("C02.wal-before-send", name+": bytes are the marshalled message", cs.Pos(), "sent bytes are "+render(bytesV))
				continue
			}
			_, ma := callArgs(mcall.Common())
			msg := unwrap(ma[0])
			signed := false
			for _, sg := range c.calls(f, byCallee("(*consensus.signedBase).Sign")) {
				sr, sa := callArgs(sg.Common())
				if derivesFrom(sr, func(v ssa.Value) bool { return v == msg }, 6) && dominatesInstr(sg.Instr, mcall) {
					signed = true
					c.check(strings.HasSuffix(render(sa[0]), ".Wallet()"), "C02.who-signs", name+": signed with the node wallet", sg.Pos(), render(sa[0]), "signed with "+render(sa[0]))
					c.requireAt("C02.wal-before-send", name+": marshalled only after a successful Sign", mcall, wSame("Sign() == nil", `\.Sign\(`, `^nil$`))
				}
			}
			c.check(signed, "C02.wal-before-send", name+": message signed before it is marshalled", mcall.Pos(), "Sign dominates MarshalToBytes", "the logged/sent bytes are marshalled before (or without) signing")
			c.check(strings.HasSuffix(render(wa[0]), ".subprotocol()") && derivesFrom(wa[0], func(v ssa.Value) bool { return v == msg }, 6), "C02.wal-before-send", name+": WAL record tagged with the message's own subprotocol", w.Pos(), render(wa[0]), "WAL record tagged "+render(wa[0]))
		}
	}
	if nSend < 3 {
		c.undecided("C02.wal-before-send", "send sites", token.NoPos, fmt.Sprintf("expected ≥3 vote/proposal send sites, found %d", nSend))
	}

	// ---- who-signs / who-sends
	for _, f := range pf {
		if strings.HasSuffix(c.file(f.Pos()), "_test.go") {
			continue
		}
		for _, sg := range c.calls(f, byCallee("(*consensus.signedBase).Sign")) {
			n := f.Name()
			switch {
			case senders[n]:
				c.ok("C02.who-signs", "Sign in "+fnName(f), sg.Pos(), "send function")
			case n == "NewVoteMessage" || n == "NewVoteMessageFromBlock" || n == "NewPrecommitMessage":
				// frozen exception: exported fixtures taking the wallet as a parameter; must have no caller in this package
				_, sa := callArgs(sg.Common())
				c.check(strings.HasPrefix(render(sa[0]), "$"), "C02.who-signs", "Sign in fixture "+fnName(f), sg.Pos(), "wallet is a parameter", "fixture signs with "+render(sa[0]))
				for _, g := range pf {
					if strings.HasSuffix(c.file(g.Pos()), "_test.go") {
						continue
					}
					for _, cc := range c.calls(g, byCallee("consensus."+n)) {
						c.violate("C02.who-signs", "fixture "+n+" called from "+fnName(g), cc.Pos(), "a vote is signed outside the logged send path")
					}
				}
			default:
				c.violate("C02.who-signs", "Sign in "+fnName(f), sg.Pos(), "consensus messages may be signed only in the functions that log and send them")
			}
		}
	}
	c.check(senders["doSendVote"] && senders["doSendProposal"] && len(senders) == 2, "C02.who-sends", "vote/proposal senders", token.NoPos, "doSendVote, doSendProposal", fmt.Sprintf("senders are %v", senders))

	// ---- wal-writer pass-through
	if f := c.mustFn(pkg, "WalMessageWriter", "WriteMessageBytes"); f != nil {
		wb := c.calls(f, byMethod("WriteBytes"))
		if len(wb) != 1 {
			c.violate("C02.wal-writer", "WriteMessageBytes", f.Pos(), "does not write exactly one WAL record")
		} else {
			for _, rs := range returnSites(f) {
				ex, isEx := rs.Results[0].(*ssa.Extract)
				c.check(isEx && ex.Index == 1 && ex.Tuple == wb[0].Instr.Value(), "C02.wal-writer", "WriteMessageBytes returns the WAL error", rs.pos(), "error of WriteBytes", "returns "+render(rs.Results[0]))
			}
			okCopy := false
			for _, cp := range c.calls(f, byCallee("builtin:copy")) {
				_, a := callArgs(cp.Common())
				if _, lo, _, ok := sliceBounds(a[0]); ok && lo == 2 && render(a[1]) == "$1" {
					okCopy = true
				}
			}
			// or: make(len 2, cap 2+n); PutUint16(bs, sp); bs = append(bs, msg...) handed to WriteBytes
			if !okCopy {
				_, wa := callArgs(wb[0].Common())
				if ap, ok := wa[0].(*ssa.Call); ok && calleeName(ap.Common()) == "builtin:append" {
					_, aa := callArgs(ap.Common())
					if ms, isMs := aa[0].(*ssa.MakeSlice); isMs && len(aa) == 2 && render(aa[1]) == "$1" {
						if k, isK := constInt(ms.Len); isK && k == 2 {
							okCopy = true
						}
					}
				}
			}
			c.check(okCopy, "C02.wal-writer", "WriteMessageBytes record = tag + message bytes", f.Pos(), "copy(bs[2:], msg)", "message bytes are not copied behind the 2-byte tag")
		}
	}

	// ---- restore-before-act
	if st := c.mustFn(pkg, "consensus", "Start"); st != nil {
		aw := c.calls(st, byCallee("(*consensus.consensus).applyWAL"))
		if len(aw) != 1 {
			c.violate("C02.restore-before-act", "Start restores the WAL", st.Pos(), fmt.Sprintf("expected one applyWAL call, found %d", len(aw)))
		} else {
			var acts []callSite
			acts = append(acts, c.calls(st, byMethod("OpenForWrite"))...)
			acts = append(acts, c.calls(st, func(cc *ssa.CallCommon) bool { return strings.HasPrefix(methodName(cc), "enter") })...)
			for _, fs := range fieldStores([]*ssa.Function{st}, "consensus", "started") {
				c.check(dominatesInstr(aw[0].Instr, fs.Store), "C02.restore-before-act", "started = true after restoration", fs.Store.Pos(), "applyWAL dominates", "the engine is marked started before the WAL is restored")
				c.requireAt("C02.restore-before-act", "started only if restoration succeeded", fs.Store, wSame("applyWAL() == nil", `^\$r\.applyWAL\(`, `^nil$`))
			}
			for _, a := range acts {
				nm := methodName(a.Common())
				c.check(dominatesInstr(aw[0].Instr, a.Instr), "C02.restore-before-act", nm+" after restoration", a.Pos(), "applyWAL dominates", nm+" can run before the WAL is restored")
				c.requireAt("C02.restore-before-act", nm+" only if restoration succeeded", a.Instr, wSame("applyWAL() == nil", `^\$r\.applyWAL\(`, `^nil$`))
			}
			if len(acts) < 6 {
				c.undecided("C02.restore-before-act", "Start actions", st.Pos(), fmt.Sprintf("expected 3 OpenForWrite and ≥3 enter* calls, found %d", len(acts)))
			}
		}
		// ---- restart-dispatch
		target := map[string]int64{}
		for _, f := range pf {
			if !strings.HasPrefix(f.Name(), "enter") || f.Signature.Recv() == nil {
				continue
			}
			for _, rc := range c.calls(f, byCallee("(*consensus.consensus).resetForNewStep")) {
				_, a := callArgs(rc.Common())
				if k, ok := constInt(a[0]); ok {
					target[f.Name()] = k
				}
			}
		}
		nd := 0
		for _, a := range c.calls(st, func(cc *ssa.CallCommon) bool { return strings.HasPrefix(methodName(cc), "enter") }) {
			nm := methodName(a.Common())
			tgt, known := target[nm]
			if !known {
				c.undecided("C02.restart-dispatch", "Start → "+nm, a.Pos(), "the step entered by "+nm+" is not a constant resetForNewStep argument")
				continue
			}
			// restored step on this arm
			var restored int64 = -1
			for _, g := range guardsAt(a.Instr) {
				p := predOf(g)
				if p.Kind == "eq" && len(p.L.T) == 1 {
					for at, k := range p.L.T {
						if strings.HasSuffix(at, ".step") && k == 1 {
							restored = -p.L.K
						}
					}
				}
			}
			if restored < 0 {
				c.undecided("C02.restart-dispatch", "Start → "+nm, a.Pos(), "no `cs.step == const` guard on this arm")
				continue
			}
			nd++
			c.check(tgt > restored, "C02.restart-dispatch", fmt.Sprintf("Start: restored step %d → %s (step %d)", restored, nm, tgt), a.Pos(), "enters a strictly later step", fmt.Sprintf("with restored step %d (own message of that step already logged and sent) the node re-enters step %d and may sign a second, different message", restored, tgt))
		}
		if nd < 4 {
			c.undecided("C02.restart-dispatch", "Start dispatch arms", st.Pos(), fmt.Sprintf("expected ≥4 arms, found %d", nd))
		}
	}
	if aw := c.mustFn(pkg, "consensus", "applyWAL"); aw != nil {
		for _, e := range successAlts(aw) {
			c.requireAtAnyGuards(e, "C02.restore-before-act", "applyWAL success: round WAL restored or absent", wSame("applyRoundWAL() == nil", `^\$r\.applyRoundWAL\(\)$`, `^nil$`), wTrue("no round WAL", `^consensus\.IsNotExist\(\$r\.applyRoundWAL\(\)\)$`))
		}
	}

	// ---- replay
	if ar := c.mustFn(pkg, "consensus", "applyRoundWAL"); ar != nil {
		var roundPhi, stepPhi *ssa.Phi
		for _, fs := range fieldStoresAny([]*ssa.Function{ar}, "hrs") {
			fn := fieldName(fs.Addr.X.Type(), fs.Addr.Field)
			if p, ok := fs.Store.Val.(*ssa.Phi); ok {
				if fn == "round" {
					roundPhi = p
				}
				if fn == "step" {
					stepPhi = p
				}
			}
		}
		if roundPhi == nil || stepPhi == nil {
			for _, fs := range fieldStoresAny([]*ssa.Function{ar}, "consensus") {
				fn := fieldName(fs.Addr.X.Type(), fs.Addr.Field)
				if p, ok := fs.Store.Val.(*ssa.Phi); ok {
					if fn == "round" {
						roundPhi = p
					}
					if fn == "step" {
						stepPhi = p
					}
				}
			}
		}
		if roundPhi == nil || stepPhi == nil {
			c.undecided("C02.replay-raises-step", "applyRoundWAL result", ar.Pos(), "final cs.round / cs.step stores of loop-carried values not found")
		} else {
			type upd struct {
				pred *ssa.BasicBlock
				val  ssa.Value
			}
			collect := func(root *ssa.Phi) []upd {
				var out []upd
				seen := map[*ssa.Phi]bool{}
				var walk func(p *ssa.Phi)
				walk = func(p *ssa.Phi) {
					if seen[p] {
						return
					}
					seen[p] = true
					for i, e := range p.Edges {
						switch x := e.(type) {
						case *ssa.Phi:
							walk(x)
						case *ssa.Const:
						default:
							out = append(out, upd{p.Block().Preds[i], e})
						}
					}
				}
				walk(root)
				return out
			}
			stepUpd := map[*ssa.BasicBlock]ssa.Value{}
			for _, u := range collectSteps(stepPhi) {
				stepUpd[u.pred] = u.val
			}
			mentions := func(v ssa.Value, target ssa.Value) bool {
				return derivesFrom(v, func(x ssa.Value) bool { return x == target || isPhiOf(x, target) }, 6)
			}
			nOwn := 0
			for _, u := range collect(roundPhi) {
				r := render(u.val)
				own := false
				for _, g := range guardsAtBlock(u.pred) {
					p := predOf(g)
					if p.Kind == "same" && p.Pol && (strings.Contains(p.A, ".Wallet().Address()") || strings.Contains(p.B, ".Wallet().Address()")) {
						own = true
					}
				}
				if !own {
					continue // the vote-list (round evidence) arm
				}
				nOwn++
				kind := "own vote"
				if strings.Contains(r, "ProposalMessage") {
					kind = "own proposal"
				}
				name := "replay of " + kind
				// alternatives reaching the update
				alts := altGuards(u.pred)
				uncond := false
				equalArm := false
				for _, alt := range alts {
					_, higher := holds(alt, wGE("round < msg round", -1, t(1, `\.round\(\)$`), t(-1, `^phi\(`)))
					_, equal := holds(alt, wEQ("round == msg round", 0, t(1, `\.round\(\)$`), t(-1, `^phi\(`)))
					ment := false
					for _, g := range alt {
						if mentions(g.Cond, ssa.Value(stepPhi)) {
							ment = true
						}
					}
					if higher && !ment {
						uncond = true
					}
					if equal && ment {
						equalArm = true
					}
				}
				c.check(uncond, "C02.replay-raises-step", name+": a higher round always wins", u.pred.Instrs[0].Pos(), "round < msg.round() suffices", "an own logged "+kind+" of a higher round is ignored depending on the restored step: after restart the node can sign that round's message again")
				c.check(equalArm, "C02.replay-raises-step", name+": same round, step not lower", u.pred.Instrs[0].Pos(), "round == msg.round() ∧ step ≤ msg step", "no same-round arm")
				// the step restored with it
				sv := stepUpd[u.pred]
				if sv == nil {
					c.violate("C02.replay-raises-step", name+": step restored together with the round", u.pred.Instrs[0].Pos(), "the round is raised without raising the step")
					continue
				}
				if kind == "own proposal" {
					k, ok := constInt(sv)
					want, _ := c.constVal(pkg, "stepPropose")
					c.check(ok && k == want, "C02.replay-raises-step", name+": restores stepPropose", u.pred.Instrs[0].Pos(), "stepPropose", "restores step "+render(sv))
				} else {
					// phi(stepPrevote | stepPrecommit) selected by the vote type
					wantPv, _ := c.constVal(pkg, "stepPrevote")
					wantPc, _ := c.constVal(pkg, "stepPrecommit")
					okSel := false
					if p, ok := sv.(*ssa.Phi); ok && len(p.Edges) == 2 {
						vals := map[int64]bool{}
						for i, e := range p.Edges {
							k, _ := constInt(e)
							vals[k] = true
							// prevote edge must be the one guarded by Type == prevote
							eg := guardsOnEdge(p.Block().Preds[i], p.Block())
							_, isPv := holds(eg, wEQ("Type == prevote", 0, t(1, `\.Type$`)))
							if isPv && k != wantPv {
								vals[-1] = true
							}
						}
						okSel = vals[wantPv] && vals[wantPc] && !vals[-1]
					}
					c.check(okSel, "C02.replay-raises-step", name+": restores the step of the vote type", u.pred.Instrs[0].Pos(), "prevote→stepPrevote, precommit→stepPrecommit", "restores step "+render(sv)+": a logged vote must restore at least its own step or the node votes again")
				}
			}
			if nOwn < 2 {
				c.undecided("C02.replay-raises-step", "own-message arms", ar.Pos(), fmt.Sprintf("expected 2 (proposal, vote), found %d", nOwn))
			}
		}
		// own votes are re-added to the vote sets
		okAdd := false
		for _, ad := range c.calls(ar, byCallee("(*consensus.heightVoteSet).add")) {
			gs := guardsAt(ad.Instr)
			_, own := holds(gs, wSame("signer is this node", `\.address\(\)$`, `\.Wallet\(\)\.Address\(\)$`))
			if own {
				okAdd = true
				c.requireAt("C02.replay-records-own", "own vote restored into the vote sets", ad.Instr, wGE("validator index ≥ 0", 0, t(1, `\.IndexOf\(`)))
				c.requireAt("C02.replay-records-own", "own vote restored into the vote sets", ad.Instr, wSame("message verified", `\.Verify\([^()]*\)$`, `^nil$`))
			}
		}
		c.check(okAdd, "C02.replay-records-own", "own logged votes are re-added", ar.Pos(), "hvs.add on the own-vote arm", "own logged votes are not restored into the height vote set")
	}

	// ---- rules added after independently produced mutants were missed
	checkReplayMonotone(c, "C02.replay-monotone")
	checkRoundIncreases(c, "C02.round-increases")
	checkConsensusCallbacks(c, "C02.stale-callbacks")

	// ---- "remembered across crashes that leave torn records": the WAL recovery
	// obligations of C03 are necessary conditions of C02 as well (a vote that is
	// lost or cut off by a bad repair is signed again).
	sub := &Ctx{Prop: c.Prop, Tier: c.Tier, L: c.L}
	runC03(sub)
	for _, o := range sub.obs {
		o2 := *o
		o2.Rule = "C02.wal-recovery/" + strings.TrimPrefix(o.Rule, "C03.")
		c.obs = append(c.obs, &o2)
	}
	c.callSites += sub.callSites
}

type stepUpdate struct {
	pred *ssa.BasicBlock
	val  ssa.Value
}

// collectSteps lists the non-trivial incoming values of a loop-carried phi
// (through nested phis), including constants (steps are constants).
func collectSteps(root *ssa.Phi) []stepUpdate {
	var out []stepUpdate
	seen := map[*ssa.Phi]bool{}
	var walk func(p *ssa.Phi, depth int)
	walk = func(p *ssa.Phi, depth int) {
		if seen[p] {
			return
		}
		seen[p] = true
		for i, e := range p.Edges {
			if x, ok := e.(*ssa.Phi); ok {
				// a phi that merges only constants is a value (prevote/precommit selection), not a carrier
				allConst := true
				for _, ee := range x.Edges {
					if _, k := ee.(*ssa.Const); !k {
						allConst = false
					}
				}
				if allConst {
					out = append(out, stepUpdate{p.Block().Preds[i], e})
				} else {
					walk(x, depth+1)
				}
				continue
			}
			out = append(out, stepUpdate{p.Block().Preds[i], e})
		}
	}
	walk(root, 0)
	return out
}

func isPhiOf(x ssa.Value, target ssa.Value) bool {
	p, ok := x.(*ssa.Phi)
	if !ok {
		return false
	}
	seen := map[*ssa.Phi]bool{}
	var rec func(p *ssa.Phi) bool
	rec = func(p *ssa.Phi) bool {
		if seen[p] {
			return false
		}
		seen[p] = true
		if ssa.Value(p) == target {
			return true
		}
		for _, e := range p.Edges {
			if q, ok := e.(*ssa.Phi); ok && rec(q) {
				return true
			}
		}
		return false
	}
	if rec(p) {
		return true
	}
	// or target flows into x
	if tp, ok := target.(*ssa.Phi); ok {
		seen = map[*ssa.Phi]bool{}
		var rec2 func(q *ssa.Phi) bool
		rec2 = func(q *ssa.Phi) bool {
			if seen[q] {
				return false
			}
			seen[q] = true
			if q == p {
				return true
			}
			for _, e := range q.Edges {
				if r, ok := e.(*ssa.Phi); ok && rec2(r) {
					return true
				}
			}
			return false
		}
		return rec2(tp)
	}
	return false
}

// requireAtAnyGuards: on this exit alternative at least one want holds.
func (c *Ctx) requireAtAnyGuards(e exitAlt, rule, construct string, ws ...Want) {
	for _, w := range ws {
		if wit, ok := holds(e.Guards, w); ok {
			c.ok(rule, construct, e.pos(), "established by "+wit)
			return
		}
	}
	c.violate(rule, construct, e.pos(), "not established; guards: "+guardsString(e.Guards))
}
